#!/bin/bash
# usage: try_seeded.sh <dir with patch.diff + demo_test.go> <pkgdir for demo e.g. proto> <PROP...>
# 1. confirms in a scratch worktree: existing tests pass with patch, demo fails with patch, demo passes without
# 2. applies patch to /repo, runs ./check for the given properties, reverts
set -u
export GOFLAGS=-mod=mod GOPROXY=off GOSUMDB=off GOTOOLCHAIN=local
D="$1"; PKG="$2"; shift 2
WT=/tmp/seedwt_$$
git -C /repo worktree add -q --detach $WT HEAD || exit 3
cleanup() { git -C /repo worktree remove --force $WT 2>/dev/null; }
trap cleanup EXIT
cp "$D/demo_test.go" $WT/$PKG/zz_demo_test.go
RUN=$(grep -o 'func Test[A-Za-z0-9_]*' "$D/demo_test.go" | sed 's/func //' | paste -sd'|')
( cd $WT/$PKG && go test -vet=off -count=1 -run "^($RUN)\$" . >/tmp/seed_demo_orig.log 2>&1 ); ORIG=$?
( cd $WT && git apply "$D/patch.diff" ) || { echo "PATCH DOES NOT APPLY"; exit 3; }
( cd $WT/$PKG && go test -vet=off -count=1 -run "^($RUN)\$" . >/tmp/seed_demo_mut.log 2>&1 ); MUT=$?
rm $WT/$PKG/zz_demo_test.go
( cd $WT && go build ./... && go test -vet=off -count=1 ./proto/ ./compress/ ./chpool/ . >/tmp/seed_suite.log 2>&1 ); SUITE=$?
echo "demo on original: exit $ORIG (want 0); demo with patch: exit $MUT (want !=0); existing suite with patch: exit $SUITE (want 0)"
cleanup; trap - EXIT
( cd /repo && git apply "$D/patch.diff" ) || { echo "PATCH DOES NOT APPLY TO /repo"; exit 3; }
for P in "$@"; do
  ( cd /verif && ./check $P 2>&1 | grep -E "^(VIOLATION|UNDECIDED|govc:)" | cut -c1-220 )
done
( cd /repo && git checkout -- . )
