#!/bin/bash
# usage: try_seeded_wt.sh <dir with patch.diff + demo_test.go> <pkgdir for demo e.g. proto> <PROP...>
# like try_seeded.sh but never touches /repo: the patched scratch worktree is what govc verifies
# (-repo <worktree>, -no-evidence), so several of these can run side by side.
set -u
export GOFLAGS=-mod=mod GOPROXY=off GOSUMDB=off GOTOOLCHAIN=local
D="$1"; PKG="$2"; shift 2
WT=/tmp/seedwt_$$
git -C /repo worktree add -q --detach $WT HEAD || exit 3
cleanup() { git -C /repo worktree remove --force $WT 2>/dev/null; rm -rf /tmp/seedout_$$; }
trap cleanup EXIT
cp "$D/demo_test.go" $WT/$PKG/zz_demo_test.go
TAGS=""; grep -q "must be run with -tags purego" "$D/README.md" 2>/dev/null && TAGS="-tags purego"; grep -q "must be run with -race" "$D/README.md" 2>/dev/null && TAGS="$TAGS -race"
RUN=$(grep -o 'func Test[A-Za-z0-9_]*' "$D/demo_test.go" | sed 's/func //' | paste -sd'|')
( cd $WT/$PKG && go test $TAGS -vet=off -count=1 -run "^($RUN)\$" . >/tmp/seedout_$$.orig 2>&1 ); ORIG=$?
( cd $WT && git apply "$D/patch.diff" ) || { echo "PATCH DOES NOT APPLY"; exit 3; }
( cd $WT/$PKG && go test $TAGS -vet=off -count=1 -run "^($RUN)\$" . >/tmp/seedout_$$.mut 2>&1 ); MUT=$?
rm $WT/$PKG/zz_demo_test.go
( cd $WT && go build ./... && go test -vet=off -count=1 ./proto/ ./compress/ ./chpool/ . >/tmp/seedout_$$.suite 2>&1 && go test -tags purego -vet=off -count=1 ./proto/ >>/tmp/seedout_$$.suite 2>&1 ); SUITE=$?
rm -f /tmp/seedout_$$.*
echo "demo on original: exit $ORIG (want 0); demo with patch: exit $MUT (want !=0); existing suite with patch: exit $SUITE (want 0)"
for P in "$@"; do
  ( cd /verif && ./bin/govc verify -repo $WT -verif /verif -prop $P -tier quick -no-evidence 2>&1 | grep -E "^(VIOLATION|UNDECIDED|govc:)" | sed 's/replay=[^ ]* //' | cut -c1-200 | head -12 )
done
