#!/bin/bash
# runs every claimed check (quick tier) and prints one line each; exit 1 if any is not clean
cd /verif
rc=0
for p in $(python3 -c "import json; print(' '.join(c['property_id'] for c in json.load(open('MANIFEST.json'))['checks']))"); do
  out=$(./check $p 2>&1); code=$?
  echo "$p exit=$code $(echo "$out" | grep '^govc:' | sed 's/govc: property [A-Z0-9]* tier quick: //')"
  if [ $code -ne 0 ]; then rc=1; echo "$out" | grep -E "^(VIOLATION|UNDECIDED)" | sed 's/replay=[^ ]* //' | cut -c1-200 | head -8; fi
done
python3 tools/audit_contracts.py || rc=1
exit $rc
