#!/usr/bin/env python3
"""Every non-assumed contract in /repo's *_verif.go files must belong to a function that some
property's function list verifies (an annotated function is not a proved one).  Contracts flagged
`inline` are bodies executed at their call sites and are exempt.  Exit 1 and a list otherwise."""
import re, json, glob, sys
listed = set()
listed_by = {}
for f in glob.glob('/verif/props/C*.json'):
    d = json.load(open(f))
    for v in d['variants']:
        listed.update(v['functions'])
        listed_by.setdefault(d['id'], set()).update(v['functions'])
missing = []
untagged = []  # (property, function): a clause tagged [Cxx] of a function that Cxx never verifies
for f in sorted(glob.glob('/repo/**/*_verif.go', recursive=True)):
    src = open(f).read()
    pkg = re.search(r'^package (\w+)', src, re.M).group(1)
    lines = src.split('\n')
    for i, l in enumerate(lines):
        m = re.match(r'//@ contract (\([^)]*\) )?([A-Za-z0-9_$]+)\(', l)
        if not m:
            continue
        recv, name = m.group(1), m.group(2)
        key = f"{pkg}.({recv.strip()[1:-1].split()[-1]}).{name}" if recv else f"{pkg}.{name}"
        flags = ' '.join(x for x in lines[i + 1:i + 4] if x.startswith('//@   '))
        if re.search(r'//@\s+inline\b', flags):
            continue
        if key not in listed:
            missing.append(key + '  (' + f + ')')
        # the header's props(...): each named property has to list the function
        hm = re.search(r'props\(([^)]*)\)', l)
        if hm:
            for t in [x.strip() for x in hm.group(1).split(',') if x.strip()]:
                if key not in listed_by.get(t, set()):
                    untagged.append(f'{t}: {key} names {t} in its props() but is not in {t}\'s function list (its contract is never checked for {t})')
        # clause tags [Cxx,...] of this contract (up to the next contract or blank line)
        j = i + 1
        tags = set()
        while j < len(lines) and lines[j].startswith('//@') and not lines[j].startswith('//@ contract'):
            for t in re.findall(r'\[((?:C\d+,?\s*)+)\]', lines[j]):
                tags.update(x.strip() for x in t.split(','))
            j += 1
        for t in sorted(tags):
            if key not in listed_by.get(t, set()):
                untagged.append(f'{t}: {key} has a clause tagged [{t}] but is not in {t}\'s function list (the clause is never checked for {t})')
if missing:
    print('contracts never verified by any property:')
    for m in missing:
        print('  ', m)
    sys.exit(1)
if untagged:
    print('clauses scoped to a property that never verifies the function:')
    for m in untagged:
        print('  ', m)
    sys.exit(1)
print('audit: every contract belongs to a verified function; every clause tag names a property that verifies the function')
