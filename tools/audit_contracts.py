#!/usr/bin/env python3
"""Every non-assumed contract in /repo's *_verif.go files must belong to a function that some
property's function list verifies (an annotated function is not a proved one).  Contracts flagged
`inline` are bodies executed at their call sites and are exempt.  Exit 1 and a list otherwise."""
import re, json, glob, sys
listed = set()
for f in glob.glob('/verif/props/C*.json'):
    for v in json.load(open(f))['variants']:
        listed.update(v['functions'])
missing = []
for f in sorted(glob.glob('/repo/**/*_verif.go', recursive=True)):
    src = open(f).read()
    pkg = re.search(r'^package (\w+)', src, re.M).group(1)
    lines = src.split('\n')
    for i, l in enumerate(lines):
        m = re.match(r'//@ contract (\([^)]*\) )?([A-Za-z0-9_$]+)\(', l)
        if not m:
            continue
        recv, name = m.group(1), m.group(2)
        key = f"{pkg}.({recv.strip()[1:-1].split()[-1]}).{name}" if recv else f"{pkg}.{name}"
        flags = ' '.join(x for x in lines[i + 1:i + 4] if x.startswith('//@   '))
        if re.search(r'//@\s+inline\b', flags):
            continue
        if key not in listed:
            missing.append(key + '  (' + f + ')')
if missing:
    print('contracts never verified by any property:')
    for m in missing:
        print('  ', m)
    sys.exit(1)
print('audit: every contract belongs to a verified function')
