#!/usr/bin/env python3
"""Thorough tier: replay the recipes of a property's findings against the REAL code (go test
-overlay, nothing is written into /repo).  Expectation comes from KNOWN_FINDINGS.txt: a recipe
named by a `fixed:` line must PASS (the defect must not have come back), a recipe named by a
`finding:` line is expected to still FAIL (it is reported as KNOWN-FINDING by the proof run; if it
passes the finding is stale).  Usage: run_recipes.py <PROP>   exit 1 + VIOLATION line on a regression."""
import json, os, re, subprocess, sys, tempfile, time
prop = sys.argv[1]
V = '/verif'
env = dict(os.environ, GOFLAGS='-mod=mod', GOPROXY='off', GOSUMDB='off', GOTOOLCHAIN='local')
expect = {}
for line in open(os.path.join(V, 'KNOWN_FINDINGS.txt')):
    m = re.match(r'(fixed|finding): property=(C\d+)', line)
    if not m or m.group(2) != prop:
        continue
    for r in re.findall(r'replay/recipes/[A-Za-z0-9_]+\.go', line):
        expect[r] = m.group(1)
results, rc = [], 0
for rel, kind in sorted(expect.items()):
    path = os.path.join(V, rel)
    if not os.path.exists(path):
        continue
    src = open(path).read()
    pkg = re.search(r'^package (\w+)', src, re.M).group(1)
    d = {'proto': 'proto', 'ch': '.', 'chpool': 'chpool', 'compress': 'compress'}[pkg]
    tests = '|'.join(re.findall(r'func (Test\w+)', src))
    tags = '-tags purego ' if re.search(r'^//go:build purego', src, re.M) else ''
    if re.search(r'^// verif:race', src, re.M):
        tags += '-race '  # the recipe demonstrates a data race: run it under the race detector
    with tempfile.TemporaryDirectory() as td:
        ov = os.path.join(td, 'ov.json')
        json.dump({'Replace': {os.path.join('/repo', d, 'zz_verif_recipe_test.go'): path}}, open(ov, 'w'))
        t0 = time.time()
        p = subprocess.run('%sgo test %s-overlay %s -vet=off -count=1 -timeout 120s -run "^(%s)$" .' % ('' if '-race' in tags else 'ulimit -v 8388608; ', tags, ov, tests),
                           shell=True, cwd=os.path.join('/repo', d), env=env, capture_output=True, text=True, executable='/bin/bash')
    passed = p.returncode == 0
    results.append({'recipe': rel, 'listed_as': kind, 'passed_on_current_tree': passed, 'seconds': round(time.time() - t0, 1)})
    if kind == 'fixed' and not passed:
        rc = 1
        print(f'VIOLATION property={prop} replay={path} a repaired defect is back: the replay recipe fails on the current tree')
        print('\n'.join(p.stdout.splitlines()[-15:]))
    elif kind == 'finding' and passed:
        print(f'NOTE property={prop} the known finding replayed by {rel} no longer reproduces (stale entry in KNOWN_FINDINGS.txt)')
    else:
        print(f'recipe {rel}: {"passes" if passed else "still fails"} on the current tree, as expected for a {kind} entry')
ev = os.path.join(V, 'evidence', prop + '.json')
if os.path.exists(ev) and results:
    e = json.load(open(ev))
    e['coverage']['replay_recipes_on_real_code'] = results
    json.dump(e, open(ev, 'w'), indent=1)
sys.exit(rc)
