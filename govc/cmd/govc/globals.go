package main

// Immutable lookup tables: a package-level map that is built once by a
// composite literal in the package initialiser and never written afterwards
// (checked syntactically over the whole package) is modelled by its literal
// contents.  Anything else about globals is unknown.

import (
	"go/types"

	"golang.org/x/tools/go/ssa"
)

type constMap struct {
	obj *Obj
	val *MapObjV
}

// constGlobalMap derives the contents of global g when g is an immutable literal map with scalar keys and values.
func (ex *Exec) constGlobalMap(g *ssa.Global) *constMap {
	if cm, ok := ex.constMaps[g]; ok {
		return cm
	}
	ex.constMaps[g] = nil
	mt, ok := under(g.Type().(*types.Pointer).Elem()).(*types.Map)
	if !ok {
		return nil
	}
	ks, ok1 := scalarSort(mt.Key())
	vs, ok2 := scalarSort(mt.Elem())
	if !ok1 || !ok2 {
		return nil
	}
	initFn := g.Pkg.Func("init")
	if initFn == nil {
		return nil
	}
	var mk *ssa.MakeMap
	stores := 0
	// every reference to g in the package: one store in init, loads elsewhere
	for _, mem := range g.Pkg.Members {
		fn, ok := mem.(*ssa.Function)
		if !ok {
			continue
		}
		if !ex.globalReadOnly(fn, g, initFn, &mk, &stores) {
			return nil
		}
	}
	for _, mem := range g.Pkg.Members {
		if t, ok := mem.(*ssa.Type); ok {
			for _, ptr := range []types.Type{t.Type(), types.NewPointer(t.Type())} {
				ms := ex.P.Prog.MethodSets.MethodSet(ptr)
				for i := 0; i < ms.Len(); i++ {
					if m := ex.P.Prog.MethodValue(ms.At(i)); m != nil && m.Pkg == g.Pkg {
						if !ex.globalReadOnly(m, g, initFn, &mk, &stores) {
							return nil
						}
					}
				}
			}
		}
	}
	if mk == nil || stores != 1 {
		return nil
	}
	has := ex.constArr(ks, SBool, tFalse)
	var zero *Term
	switch vs {
	case SInt:
		zero = Int(0)
	case SBool:
		zero = tFalse
	default:
		return nil
	}
	vals := ex.constArr(ks, vs, zero)
	n := int64(0)
	for _, ref := range *mk.Referrers() {
		switch u := ref.(type) {
		case *ssa.MapUpdate:
			kc, ok1 := u.Key.(*ssa.Const)
			vc, ok2 := u.Value.(*ssa.Const)
			if !ok1 || !ok2 || u.Block().Parent() != initFn {
				return nil
			}
			k, okk := ex.constVal(kc).(*Term)
			v, okv := ex.constVal(vc).(*Term)
			if !okk || !okv {
				return nil
			}
			has = Store(has, k, tTrue)
			vals = Store(vals, k, v)
			n++
		case *ssa.Store:
			if u.Addr != g {
				return nil
			}
		case *ssa.DebugRef:
		default:
			return nil
		}
	}
	o := ex.newObj("constmap."+g.Name(), g.Type().(*types.Pointer).Elem())
	cm := &constMap{obj: o, val: &MapObjV{Has: has, Val: vals, Len: Int(n)}}
	ex.constMaps[g] = cm
	ex.Assumptions["package-level map "+g.Pkg.Pkg.Name()+"."+g.Name()+" is modelled by its literal contents (built once in init, never written elsewhere: checked syntactically; duplicate literal keys assumed absent)"] = true
	return cm
}

// globalReadOnly: fn only loads g (and uses the loaded map for lookups/len), except the single store in init.
func (ex *Exec) globalReadOnly(fn *ssa.Function, g *ssa.Global, initFn *ssa.Function, mk **ssa.MakeMap, stores *int) bool {
	ok := true
	var visit func(f *ssa.Function)
	visit = func(f *ssa.Function) {
		for _, b := range f.Blocks {
			for _, in := range b.Instrs {
				for _, op := range in.Operands(nil) {
					if *op != ssa.Value(g) {
						continue
					}
					switch u := in.(type) {
					case *ssa.Store:
						if u.Addr == g && f == initFn {
							if m, isMk := u.Val.(*ssa.MakeMap); isMk {
								*mk = m
								*stores++
								continue
							}
						}
						ok = false
					case *ssa.UnOp:
						for _, r := range *u.Referrers() {
							switch r.(type) {
							case *ssa.Lookup, *ssa.DebugRef:
							case *ssa.Call:
								if c := r.(*ssa.Call).Common(); c.IsInvoke() {
									ok = false
								} else if bi, isB := c.Value.(*ssa.Builtin); !isB || bi.Name() != "len" {
									ok = false
								}
							default:
								ok = false
							}
						}
					case *ssa.DebugRef:
					default:
						ok = false
					}
				}
			}
		}
		for _, af := range f.AnonFuncs {
			visit(af)
		}
	}
	visit(fn)
	return ok
}
