package main

import (
	"fmt"
	"go/token"
	"go/types"
	"math/big"
	"strings"

	"golang.org/x/tools/go/ssa"
)

func (fr *FnRun) ordOf(in ssa.Instruction) string {
	if in == nil {
		return "deferred"
	}
	if in.Parent() != fr.fn {
		// inlined body: qualify by callee
		return ShortKey(FuncKey(in.Parent())) + "." + fmt.Sprint(fr.ex.inlineOrd(in))
	}
	return fmt.Sprint(fr.ord[in])
}

var inlineOrdCache = map[*ssa.Function]map[ssa.Instruction]int{}

func (ex *Exec) inlineOrd(in ssa.Instruction) int {
	fn := in.Parent()
	m, ok := inlineOrdCache[fn]
	if !ok {
		tmp := &FnRun{ex: ex, fn: fn}
		tmp.numberInstrs()
		m = tmp.ord
		inlineOrdCache[fn] = m
	}
	return m[in]
}

func (fr *FnRun) wraps() bool {
	return fr.ctr != nil && fr.ctr.Flags["wraps"] != ""
}

// instr executes one straight-line instruction.
func (fr *FnRun) instr(st *State, in ssa.Instruction, depth int) {
	ex := fr.ex
	switch x := in.(type) {
	case *ssa.DebugRef:
	case *ssa.Alloc:
		fr.checkAllocSite(st, x)
		elem := x.Type().(*types.Pointer).Elem()
		name := x.Comment
		if name == "" {
			name = x.Name()
		}
		o := ex.newObj(ex.fresh(name), elem)
		st.heap[o] = ex.zeroVal(elem, name)
		st.vals[x] = &PtrV{Nil: tFalse, Obj: o, Elem: elem}
	case *ssa.UnOp:
		st.vals[x] = fr.unop(st, x)
	case *ssa.BinOp:
		st.vals[x] = fr.binop(st, x)
	case *ssa.Convert:
		st.vals[x] = fr.convert(st, x)
	case *ssa.ChangeType:
		v := fr.value(st, x.X)
		if sv, ok := v.(*StructV); ok {
			v = &StructV{T: x.Type(), F: sv.F, Ghost: sv.Ghost}
		}
		st.vals[x] = v
	case *ssa.MultiConvert:
		panic(abortf("MultiConvert unsupported"))
	case *ssa.FieldAddr:
		p := fr.ptr(st, x.X)
		fr.oblige(st, "nil", fr.ordOf(in), Not(p.Nil), nil, "pointer dereference "+x.X.Name()+"."+fieldName(x))
		if p.Nil.IsTrue() || p.Obj == nil {
			panic(pathStop{})
		}
		st.assume(Not(p.Nil))
		st.vals[x] = &PtrV{Nil: tFalse, Obj: p.Obj, Path: appendPath(p.Path, PathElem{Field: x.Field}), Elem: x.Type().(*types.Pointer).Elem()}
	case *ssa.Field:
		v := ex.force(st, fr.value(st, x.X))
		sv, ok := v.(*StructV)
		if !ok {
			panic(abortf("Field of %T", v))
		}
		if sv.F == nil {
			panic(abortf("field access on opaque type %s", sv.T))
		}
		fv := sv.F[x.Field]
		if lz, ok := fv.(*LazyV); ok {
			fv = ex.force(st, lz)
		}
		st.vals[x] = fv
	case *ssa.IndexAddr:
		fr.indexAddr(st, x)
	case *ssa.Index:
		idx := fr.term(st, x.Index)
		switch v := fr.value(st, x.X).(type) {
		case *ArrayV:
			fr.oblige(st, "bounds", fr.ordOf(in), And(Le(Int(0), idx), Lt(idx, Int(v.N))), nil, "array index in range")
			st.assume(And(Le(Int(0), idx), Lt(idx, Int(v.N))))
			st.vals[x] = ex.readElem(st, v.Data, v.Elem, idx)
		case *StrV:
			fr.oblige(st, "bounds", fr.ordOf(in), And(Le(Int(0), idx), Lt(idx, v.Len)), nil, "string index in range")
			st.assume(And(Le(Int(0), idx), Lt(idx, v.Len)))
			st.vals[x] = Select(v.Arr, idx)
		default:
			panic(abortf("Index of %T", v))
		}
	case *ssa.Slice:
		fr.slice(st, x)
	case *ssa.Store:
		p := fr.ptr(st, x.Addr)
		fr.checkGuard(st, in, x.Addr, "store")
		fr.oblige(st, "nil", fr.ordOf(in), Not(p.Nil), nil, "store through pointer "+x.Addr.Name())
		if p.Nil.IsTrue() || p.Obj == nil {
			panic(pathStop{})
		}
		st.assume(Not(p.Nil))
		if p.ViewOf != nil {
			panic(abortf("store of a single byte through a byte view"))
		}
		ex.store(st, p, fr.value(st, x.Val))
	case *ssa.MakeSlice:
		l := fr.term(st, x.Len)
		c := fr.term(st, x.Cap)
		elem := under(x.Type()).(*types.Slice).Elem()
		fr.oblige(st, "alloc", fr.ordOf(in), And(Le(Int(0), l), Le(l, c)), nil, "make: 0 <= len <= cap")
		st.assume(And(Le(Int(0), l), Le(l, c)))
		fr.allocBound(st, in, c, elem)
		o := ex.newObj(ex.fresh("make"), types.NewSlice(elem))
		o.IsArr = true
		st.heap[o] = &ArrayV{Elem: elem, N: -1, Data: ex.zeroArrData(elem, o.Name)}
		st.vals[x] = &SliceV{Nil: tFalse, Arr: o, Off: Int(0), Len: l, Cap: c, Elem: elem}
	case *ssa.MakeInterface:
		st.vals[x] = &IfaceV{Nil: tFalse, Dyn: x.X.Type(), Pay: fr.value(st, x.X), T: x.Type()}
	case *ssa.ChangeInterface:
		st.vals[x] = fr.value(st, x.X)
	case *ssa.TypeAssert:
		fr.typeAssert(st, x)
	case *ssa.Extract:
		tv, ok := fr.value(st, x.Tuple).(*TupleV)
		if !ok {
			panic(abortf("Extract from %T", fr.value(st, x.Tuple)))
		}
		st.vals[x] = tv.E[x.Index]
	case *ssa.MakeClosure:
		fv := &FuncV{Nil: tFalse, Fn: x.Fn.(*ssa.Function), Name: x.Fn.Name()}
		for _, b := range x.Bindings {
			fv.Free = append(fv.Free, fr.value(st, b))
		}
		st.vals[x] = fv
	case *ssa.SliceToArrayPointer:
		fr.sliceToArrayPtr(st, x)
	case *ssa.Defer:
		d := &deferRec{call: x.Common(), site: x}
		d.fnv, d.args = fr.evalCallee(st, x.Common())
		st.defers = append(st.defers, d)
	case *ssa.Go:
		// a `go` statement is not executed, but call-site assertions attached to the started function
		// are checked at the statement (what must hold when the goroutine is started)
		fr.siteArgs = nil
		fr.checkCallSite(st, x, x.Common())
		fr.bumpCallCounters(st, x) // calls("f") counts the goroutines started with `go f(...)` as well
		st.events = append(st.events, "go:"+x.Common().String())
	case *ssa.MakeMap:
		mt := under(x.Type()).(*types.Map)
		o := ex.newObj(ex.fresh("map"), x.Type())
		st.heap[o] = ex.emptyMap(mt)
		st.vals[x] = &MapV{Nil: tFalse, Obj: o, K: mt.Key(), V: mt.Elem()}
	case *ssa.Lookup:
		fr.lookup(st, x)
	case *ssa.MapUpdate:
		fr.mapUpdate(st, x)
	case *ssa.MakeChan:
		st.vals[x] = &OpaqueV{T: x.Type(), Name: "chan"}
	case *ssa.Send:
	case *ssa.Select:
		// any ready case: the chosen index is one of the cases (or -1 for a non-blocking select);
		// received values are unconstrained
		sv := ex.freshVal(x.Type(), ex.fresh("select"))
		if tv, ok := sv.(*TupleV); ok && len(tv.E) > 0 {
			if idx, ok := tv.E[0].(*Term); ok {
				lo := Int(0)
				if !x.Blocking {
					lo = Int(-1)
				}
				st.assume(And(Le(lo, idx), Lt(idx, Int(int64(len(x.States))))))
			}
		}
		st.vals[x] = sv
	case *ssa.Range:
		st.vals[x] = &OpaqueV{T: x.Type(), Name: "range:" + x.X.Name()}
		fr.rangeInit(st, x)
	case *ssa.Next:
		fr.rangeNext(st, x)
	default:
		panic(abortf("unsupported instruction %T: %s", in, in))
	}
}

func fieldName(x *ssa.FieldAddr) string {
	st := under(x.X.Type().(*types.Pointer).Elem()).(*types.Struct)
	return st.Field(x.Field).Name()
}

func appendPath(p []PathElem, e PathElem) []PathElem {
	n := make([]PathElem, len(p)+1)
	copy(n, p)
	n[len(p)] = e
	return n
}

func (fr *FnRun) ptr(st *State, v ssa.Value) *PtrV {
	val := fr.ex.force(st, fr.value(st, v))
	p, ok := val.(*PtrV)
	if !ok {
		panic(abortf("pointer expected for %s, got %T", v.Name(), val))
	}
	return p
}

func (fr *FnRun) allocBound(st *State, in ssa.Instruction, n *Term, elem types.Type) {
	// Allocation sizes must be bounded by a cap the code has enforced.  The
	// bound is the contract's `alloc` flag (bytes); default: no obligation.
	if fr.ctr == nil || fr.ctr.Flags["alloc"] == "" {
		return
	}
	e, err := ParseExpr(fr.ctr.Flags["alloc"])
	if err != nil {
		panic(abortf("alloc clause: %v", err))
	}
	b := fr.evalTerm(e, &Env{st: st, old: fr.entry, vars: fr.env0, fr: fr})
	sz := Int(fr.ex.sizeOf(elem))
	fr.oblige(st, "allocsize", fr.ordOf(in), Le(Mul(n, sz), b), nil, "allocation bounded by "+fr.ctr.Flags["alloc"])
}

func (ex *Exec) sizeOf(t types.Type) int64 {
	defer func() { recover() }()
	return types.SizesFor("gc", "amd64").Sizeof(t)
}

func (fr *FnRun) unop(st *State, x *ssa.UnOp) Val {
	ex := fr.ex
	switch x.Op {
	case token.MUL:
		p := fr.ptr(st, x.X)
		fr.checkGuard(st, x, x.X, "load")
		fr.oblige(st, "nil", fr.ordOf(x), Not(p.Nil), nil, "load through pointer "+x.X.Name())
		if p.Nil.IsTrue() || p.Obj == nil {
			panic(pathStop{}) // definitely nil: the obligation above fails if this point is reachable
		}
		st.assume(Not(p.Nil))
		if p.ViewOf != nil {
			return fr.viewByte(st, p.ViewOf, p.ViewIdx)
		}
		v := ex.load(st, p)
		// unsafe reinterpretation of slice headers (byte views)
		if sv, ok := v.(*SliceV); ok && isSliceHeaderStruct(p.Elem) {
			return fr.sliceHeaderOf(sv, p.Elem)
		}
		if hv, ok := v.(*StructV); ok && isSliceHeaderStruct(hv.T) {
			if _, isSl := under(p.Elem).(*types.Slice); isSl {
				return fr.viewOfHeader(st, hv, p.Elem, fr.ordOf(x))
			}
		}
		return v
	case token.NOT:
		return Not(fr.term(st, x.X))
	case token.SUB:
		t := fr.term(st, x.X)
		if isFloat(x.Type()) {
			return fr.uf("fneg", SInt, t)
		}
		bits, uns, _ := intBits(x.Type())
		r := Neg(t)
		if uns || fr.wraps() {
			return wrapTo(r, bits, uns)
		}
		lo, hi, _ := intRange(x.Type())
		fr.oblige(st, "ovf", fr.ordOf(x), And(Le(IntB(lo), r), Le(r, IntB(hi))), nil, "negation does not overflow")
		st.assume(And(Le(IntB(lo), r), Le(r, IntB(hi))))
		return r
	case token.XOR:
		t := fr.term(st, x.X)
		_, uns, _ := intBits(x.Type())
		if uns {
			_, hi, _ := intRange(x.Type())
			return Sub(IntB(hi), t)
		}
		return Sub(Neg(t), Int(1))
	case token.ARROW:
		return ex.freshVal(x.Type(), ex.fresh("recv"))
	}
	panic(abortf("unsupported unary op %s", x.Op))
}

func (fr *FnRun) uf(name string, ret Sort, args ...*Term) *Term {
	ex := fr.ex
	if _, ok := ex.UFs[name]; !ok {
		sig := &UFSig{Name: name, Ret: ret}
		for _, a := range args {
			sig.Args = append(sig.Args, a.Sort)
		}
		ex.UFs[name] = sig
	}
	return App(name, ret, args...)
}

func (fr *FnRun) binop(st *State, x *ssa.BinOp) Val {
	ex := fr.ex
	a := ex.force(st, fr.value(st, x.X))
	b := ex.force(st, fr.value(st, x.Y))
	switch x.Op {
	case token.EQL:
		return fr.valEq(st, a, b)
	case token.NEQ:
		return Not(fr.valEq(st, a, b))
	}
	if sa, ok := a.(*StrV); ok {
		sb := b.(*StrV)
		switch x.Op {
		case token.ADD:
			return fr.concat(st, sa, sb)
		case token.LSS, token.LEQ, token.GTR, token.GEQ:
			return fr.uf("strcmp_"+x.Op.String(), SBool, sa.Arr, sa.Len, sb.Arr, sb.Len)
		}
		panic(abortf("unsupported string op %s", x.Op))
	}
	ta, ok1 := a.(*Term)
	tb, ok2 := b.(*Term)
	if !ok1 || !ok2 {
		panic(abortf("binop %s on %T, %T", x.Op, a, b))
	}
	typ := x.X.Type()
	if isTypeParam(typ) {
		panic(abortf("arithmetic on type parameter"))
	}
	if isBool(typ) {
		switch x.Op {
		case token.AND, token.LAND:
			return And(ta, tb)
		case token.OR, token.LOR:
			return Or(ta, tb)
		}
	}
	if isFloat(typ) {
		switch x.Op {
		case token.LSS, token.LEQ, token.GTR, token.GEQ:
			return fr.uf("fcmp_"+tokName(x.Op), SBool, ta, tb)
		}
		return fr.uf("f"+tokName(x.Op), SInt, ta, tb)
	}
	bits, uns, isInt := intBits(typ)
	if !isInt {
		panic(abortf("binop %s on non-integer %s", x.Op, typ))
	}
	lo, hi, _ := intRange(x.Type())
	inRange := func(r *Term) *Term { return And(Le(IntB(lo), r), Le(r, IntB(hi))) }
	arith := func(r *Term, what string) *Term {
		if uns || fr.wraps() {
			return wrapTo(r, bits, uns)
		}
		if r.IsInt() {
			if r.I.Cmp(lo) >= 0 && r.I.Cmp(hi) <= 0 {
				return r
			}
		}
		fr.oblige(st, "ovf", fr.ordOf(x), inRange(r), nil, what+" does not overflow "+typ.String())
		st.assume(inRange(r))
		return r
	}
	switch x.Op {
	case token.ADD:
		return arith(Add(ta, tb), "addition")
	case token.SUB:
		return arith(Sub(ta, tb), "subtraction")
	case token.MUL:
		return arith(Mul(ta, tb), "multiplication")
	case token.QUO, token.REM:
		fr.oblige(st, "div", fr.ordOf(x), Not(Eq(tb, Int(0))), nil, "division by zero")
		st.assume(Not(Eq(tb, Int(0))))
		var q *Term
		if uns {
			q = Div(ta, tb)
		} else {
			q = truncDiv(ta, tb)
		}
		if x.Op == token.QUO {
			if !uns {
				// MinInt / -1
				return arith(q, "division")
			}
			return q
		}
		if uns {
			return Mod(ta, tb)
		}
		return Sub(ta, Mul(tb, q))
	case token.LSS:
		return Lt(ta, tb)
	case token.LEQ:
		return Le(ta, tb)
	case token.GTR:
		return Lt(tb, ta)
	case token.GEQ:
		return Le(tb, ta)
	case token.SHL:
		if tb.IsInt() && tb.I.IsInt64() && tb.I.Int64() >= 0 && tb.I.Int64() < 512 {
			r := Mul(ta, IntB(Pow2(uint(tb.I.Int64()))))
			return wrapTo(r, bits, uns)
		}
		return fr.bitUF(st, "shl", ta, tb, typ)
	case token.SHR:
		if tb.IsInt() && tb.I.IsInt64() && tb.I.Int64() >= 0 && tb.I.Int64() < 512 {
			return Div(ta, IntB(Pow2(uint(tb.I.Int64()))))
		}
		return fr.bitUF(st, "shr", ta, tb, typ)
	case token.AND:
		if tb.IsInt() {
			if k, ok := lowMask(tb.I); ok {
				return Mod(ta, IntB(Pow2(k)))
			}
		}
		if ta.IsInt() {
			if k, ok := lowMask(ta.I); ok {
				return Mod(tb, IntB(Pow2(k)))
			}
		}
		if ta.IsInt() && tb.IsInt() && ta.I.Sign() >= 0 && tb.I.Sign() >= 0 {
			return IntB(new(big.Int).And(ta.I, tb.I))
		}
		// unsigned value AND a single-bit mask 2^k: bit k of the value, in place
		if uns {
			for _, pr := range [][2]*Term{{ta, tb}, {tb, ta}} {
				v, c := pr[0], pr[1]
				if c.IsInt() && c.I.Sign() > 0 && new(big.Int).And(c.I, new(big.Int).Sub(c.I, big.NewInt(1))).Sign() == 0 {
					return Mul(Mod(Div(v, c), Int(2)), c)
				}
			}
		}
		return fr.bitUF(st, "bitand", ta, tb, typ)
	case token.OR:
		if ta.IsInt() && tb.IsInt() && ta.I.Sign() >= 0 && tb.I.Sign() >= 0 {
			return IntB(new(big.Int).Or(ta.I, tb.I))
		}
		// constant with k trailing zero bits OR a value below 2^k is addition
		for _, pr := range [][2]*Term{{ta, tb}, {tb, ta}} {
			c, v := pr[0], pr[1]
			if c.IsInt() && c.I.Sign() > 0 {
				k := c.I.TrailingZeroBits()
				if k > 0 {
					small := And(Le(Int(0), v), Lt(v, IntB(Pow2(k))))
					return Ite(small, Add(c, v), fr.bitUF(st, "bitor", c, v, typ))
				}
			}
			if c.IsInt() && c.I.Sign() == 0 {
				return v
			}
		}
		return fr.bitUF(st, "bitor", ta, tb, typ)
	case token.XOR:
		if ta.IsInt() && tb.IsInt() && ta.I.Sign() >= 0 && tb.I.Sign() >= 0 {
			return IntB(new(big.Int).Xor(ta.I, tb.I))
		}
		return fr.bitUF(st, "bitxor", ta, tb, typ)
	case token.AND_NOT:
		return fr.bitUF(st, "bitandnot", ta, tb, typ)
	}
	panic(abortf("unsupported binary op %s", x.Op))
}

func tokName(op token.Token) string {
	switch op {
	case token.ADD:
		return "add"
	case token.SUB:
		return "sub"
	case token.MUL:
		return "mul"
	case token.QUO:
		return "div"
	case token.REM:
		return "rem"
	case token.LSS:
		return "lt"
	case token.LEQ:
		return "le"
	case token.GTR:
		return "gt"
	case token.GEQ:
		return "ge"
	}
	return "op"
}

// bitUF: an uninterpreted bit operation whose result lies in the type's range.
func (fr *FnRun) bitUF(st *State, name string, a, b *Term, typ types.Type) *Term {
	r := fr.uf(name, SInt, a, b)
	if lo, hi, ok := intRange(typ); ok {
		st.assume(And(Le(IntB(lo), r), Le(r, IntB(hi))))
	}
	return r
}

func lowMask(c *big.Int) (uint, bool) {
	if c.Sign() <= 0 {
		return 0, false
	}
	p := new(big.Int).Add(c, big.NewInt(1))
	if new(big.Int).And(p, c).Sign() != 0 {
		return 0, false
	}
	return uint(p.BitLen() - 1), true
}

// truncDiv is Go's signed division (truncation toward zero) over SMT div.
func truncDiv(a, b *Term) *Term {
	if a.IsInt() && b.IsInt() && b.I.Sign() != 0 {
		return IntB(new(big.Int).Quo(a.I, b.I))
	}
	// b > 0: a>=0 ? a div b : -((-a) div b);  b < 0: a>=0 ? -(a div -b) : (-a) div (-b)
	pos := func(n, d *Term) *Term {
		return Ite(Le(Int(0), n), Div(n, d), Neg(Div(Neg(n), d)))
	}
	if b.IsInt() {
		if b.I.Sign() > 0 {
			return pos(a, b)
		}
		return Neg(pos(a, Neg(b)))
	}
	return Ite(Lt(Int(0), b), pos(a, b), Neg(pos(a, Neg(b))))
}

func (fr *FnRun) valEq(st *State, a, b Val) *Term {
	ex := fr.ex
	a, b = ex.force(st, a), ex.force(st, b)
	switch x := a.(type) {
	case *Term:
		y, ok := b.(*Term)
		if !ok {
			panic(abortf("== on %T and %T", a, b))
		}
		if x.Sort != y.Sort {
			y = coerce(y, x.Sort)
		}
		return Eq(x, y)
	case *PtrV:
		y, ok := b.(*PtrV)
		if !ok {
			panic(abortf("== on %T and %T", a, b))
		}
		if y.Nil.IsTrue() {
			return x.Nil
		}
		if x.Nil.IsTrue() {
			return y.Nil
		}
		same := x.Obj == y.Obj && samePath(x.Path, y.Path)
		return Or(And(x.Nil, y.Nil), And(Not(x.Nil), Not(y.Nil), Bool(same)))
	case *IfaceV:
		y, ok := b.(*IfaceV)
		if !ok {
			panic(abortf("== on %T and %T", a, b))
		}
		if y.Nil.IsTrue() {
			return x.Nil
		}
		if x.Nil.IsTrue() {
			return y.Nil
		}
		if x.Obj != nil && x.Obj == y.Obj {
			return tTrue
		}
		if x.Dyn != nil && y.Dyn != nil {
			if !types.Identical(x.Dyn, y.Dyn) {
				return And(x.Nil, y.Nil)
			}
			return Or(And(x.Nil, y.Nil), And(Not(x.Nil), Not(y.Nil), fr.valEq(st, x.Pay, y.Pay)))
		}
		// unknown dynamic values: uninterpreted identity
		return Or(And(x.Nil, y.Nil), And(Not(x.Nil), Not(y.Nil), fr.uf("ifaceeq", SBool, ifaceID(x), ifaceID(y))))
	case *StructV:
		y, ok := b.(*StructV)
		if !ok {
			panic(abortf("== on %T and %T", a, b))
		}
		var cs []*Term
		for i := range x.F {
			cs = append(cs, fr.valEq(st, x.F[i], y.F[i]))
		}
		for k, g := range x.Ghost {
			if h, ok := y.Ghost[k]; ok {
				cs = append(cs, fr.valEq(st, g, h))
			}
		}
		return And(cs...)
	case *StrV:
		y, ok := b.(*StrV)
		if !ok {
			panic(abortf("== on %T and %T", a, b))
		}
		return fr.strEq(x, y)
	case *SliceV:
		y, ok := b.(*SliceV)
		if ok && y.Nil.IsTrue() {
			return x.Nil
		}
		if ok && x.Nil.IsTrue() {
			return y.Nil
		}
	case *MapV:
		if y, ok := b.(*MapV); ok && y.Nil.IsTrue() {
			return x.Nil
		}
	case *FuncV:
		if y, ok := b.(*FuncV); ok {
			if y.Nil.IsTrue() {
				return x.Nil
			}
			if x.Nil.IsTrue() {
				return y.Nil
			}
		}
	case *ArrayV:
		y, ok := b.(*ArrayV)
		if ok {
			if tx, ok1 := x.Data.(*Term); ok1 {
				if ty, ok2 := y.Data.(*Term); ok2 && x.N <= 64 {
					var cs []*Term
					for i := int64(0); i < x.N; i++ {
						cs = append(cs, Eq(Select(tx, Int(i)), Select(ty, Int(i))))
					}
					return And(cs...)
				}
				if ty, ok2 := y.Data.(*Term); ok2 {
					k := Var(ex.fresh("k!ae"), SInt)
					return Forall([]*Term{k}, Implies(And(Le(Int(0), k), Lt(k, Int(x.N))), Eq(Select(tx, k), Select(ty, k))))
				}
			}
		}
	case *OpaqueV:
		if y, ok := b.(*OpaqueV); ok && x == y {
			return tTrue
		}
		return Var(ex.fresh("opaqueeq"), SBool)
	}
	panic(abortf("== on %T and %T unsupported", a, b))
}

func ifaceID(x *IfaceV) *Term {
	if x.Obj != nil {
		return Var("id."+x.Obj.Name, SInt)
	}
	return Int(-1)
}

func samePath(a, b []PathElem) bool {
	if len(a) != len(b) {
		return false
	}
	for i := range a {
		if (a[i].Idx == nil) != (b[i].Idx == nil) {
			return false
		}
		if a[i].Idx != nil {
			if !sameTerm(a[i].Idx, b[i].Idx) {
				return false
			}
		} else if a[i].Field != b[i].Field {
			return false
		}
	}
	return true
}

// strEq: equal length and equal bytes below the length.
func (fr *FnRun) strEq(x, y *StrV) *Term {
	if sameTerm(x.Arr, y.Arr) && sameTerm(x.Len, y.Len) {
		return tTrue
	}
	if x.Len.IsInt() && y.Len.IsInt() && x.Len.I.Cmp(y.Len.I) != 0 {
		return tFalse
	}
	// short constant on one side: explicit bytes
	for _, pr := range [][2]*StrV{{x, y}, {y, x}} {
		c, v := pr[0], pr[1]
		if c.Len.IsInt() && c.Len.I.IsInt64() && c.Len.I.Int64() <= 64 {
			cs := []*Term{Eq(v.Len, c.Len)}
			for i := int64(0); i < c.Len.I.Int64(); i++ {
				cs = append(cs, Eq(Select(v.Arr, Int(i)), Select(c.Arr, Int(i))))
			}
			return And(cs...)
		}
	}
	fr.ex.declStrEq()
	return App("streq", SBool, x.Arr, x.Len, y.Arr, y.Len)
}

func (ex *Exec) declStrEq() {
	if _, ok := ex.UFs["streq"]; ok {
		return
	}
	a, b := Var("a!s", SArrII), Var("b!s", SArrII)
	n, m := Var("n!s", SInt), Var("m!s", SInt)
	k := Var("k!s", SInt)
	def := And(Eq(n, m), Forall([]*Term{k}, Implies(And(Le(Int(0), k), Lt(k, n)), Eq(Select(a, k), Select(b, k)))))
	ex.UFs["streq"] = &UFSig{Name: "streq", Args: []Sort{SArrII, SInt, SArrII, SInt}, Ret: SBool, Params: []*Term{a, n, b, m}, Def: def}
}

func (fr *FnRun) concat(st *State, a, b *StrV) *StrV {
	if a.Len.IsInt() && a.Len.I.Sign() == 0 {
		return b
	}
	if b.Len.IsInt() && b.Len.I.Sign() == 0 {
		return a
	}
	ex := fr.ex
	arr := Var(ex.fresh("concat"), SArrII)
	k := Var("k!c", SInt)
	st.assume(Forall([]*Term{k}, Implies(And(Le(Int(0), k), Lt(k, a.Len)), Eq(Select(arr, k), Select(a.Arr, k))), Select(arr, k)))
	st.assume(Forall([]*Term{k}, Implies(And(Le(Int(0), k), Lt(k, b.Len)), Eq(Select(arr, Add(a.Len, k)), Select(b.Arr, k))), Select(b.Arr, k)))
	return &StrV{Arr: arr, Len: Add(a.Len, b.Len)}
}

func (fr *FnRun) convert(st *State, x *ssa.Convert) Val {
	ex := fr.ex
	v := ex.force(st, fr.value(st, x.X))
	from, to := x.X.Type(), x.Type()
	if t, ok := v.(*Term); ok && (isTypeParam(from) || isTypeParam(to)) {
		// conversion through a type parameter: an uninterpreted function of the value
		ts, ok2 := scalarSort(to)
		if !ok2 {
			panic(abortf("conversion to %s through a type parameter", to))
		}
		r := fr.uf("tpconv_"+sanitize(from.String())+"_"+sanitize(to.String()), ts, t)
		if lo, hi, isInt := intRange(to); isInt {
			st.assume(And(Le(IntB(lo), r), Le(r, IntB(hi))))
		}
		return r
	}
	if t, ok := v.(*Term); ok {
		fb, fu, fint := intBits(from)
		tb, tu, tint := intBits(to)
		switch {
		case fint && tint:
			if (fu == tu && fb <= tb) || (fu && !tu && fb < tb) {
				return t
			}
			return wrapTo(t, tb, tu)
		case fint && isFloat(to):
			return fr.uf("int2float", SInt, t)
		case isFloat(from) && tint:
			r := fr.uf("float2int", SInt, t)
			lo, hi, _ := intRange(to)
			st.assume(And(Le(IntB(lo), r), Le(r, IntB(hi))))
			return r
		case isFloat(from) && isFloat(to):
			if under(from) == under(to) {
				return t
			}
			return fr.uf("fconv", SInt, t)
		case fint && isString(to):
			return ex.freshVal(to, ex.fresh("runestr"))
		}
	}
	switch s := v.(type) {
	case *StrV:
		if sl, ok := under(to).(*types.Slice); ok {
			// []byte(s): fresh array with the same bytes
			o := ex.newObj(ex.fresh("bytes"), types.NewSlice(sl.Elem()))
			o.IsArr = true
			st.heap[o] = &ArrayV{Elem: sl.Elem(), N: -1, Data: s.Arr}
			return &SliceV{Nil: tFalse, Arr: o, Off: Int(0), Len: s.Len, Cap: s.Len, Elem: sl.Elem()}
		}
		if isString(to) {
			return s
		}
	case *SliceV:
		if isString(to) {
			if s.ViewW > 0 {
				panic(abortf("string() of a byte view"))
			}
			arr, ok := fr.sliceData(st, s).(*Term)
			if !ok {
				panic(abortf("string() of non-byte slice"))
			}
			return &StrV{Arr: fr.shifted(st, arr, s.Off, s.Len), Len: s.Len}
		}
		if _, ok := under(to).(*types.Slice); ok {
			return s
		}
	}
	if u, ok := under(to).(*types.Basic); ok && u.Kind() == types.UnsafePointer {
		return fr.toUnsafe(st, v, from)
	}
	if u, ok := under(from).(*types.Basic); ok && u.Kind() == types.UnsafePointer {
		return fr.fromUnsafe(st, v, to)
	}
	panic(abortf("unsupported conversion %s -> %s (%T)", from, to, v))
}

// shifted returns an array B with B[i] = A[off+i] for 0 <= i < n.
func (fr *FnRun) shifted(st *State, a, off, n *Term) *Term {
	if off.IsInt() && off.I.Sign() == 0 {
		return a
	}
	if n.IsInt() && n.I.IsInt64() && n.I.Int64() <= 64 {
		fr.ex.ensureZeros(a.Sort.ElemSort())
		r := App("zeros_"+sortTag(a.Sort.ElemSort()), a.Sort)
		for i := int64(0); i < n.I.Int64(); i++ {
			r = Store(r, Int(i), Select(a, Add(off, Int(i))))
		}
		return r
	}
	b := Var(fr.ex.fresh("shift"), a.Sort)
	k := Var("k!sh", SInt)
	st.assume(Forall([]*Term{k}, Implies(And(Le(Int(0), k), Lt(k, n)), Eq(Select(b, k), Select(a, Add(off, k)))), Select(b, k)))
	return b
}

// arrOf returns the backing array value of a slice.
func (fr *FnRun) arrOf(st *State, s *SliceV) *ArrayV {
	if why, ok := st.stale[s.Arr]; ok {
		panic(abortf("access to stale array %s (%s)", s.Arr, why))
	}
	root := fr.ex.heapGet(st, s.Arr)
	if len(s.Base) > 0 {
		v, changed, nroot := fr.ex.loadPath(st, root, s.Base)
		if changed {
			st.heap[s.Arr] = nroot
		}
		root = v
	}
	av, ok := root.(*ArrayV)
	if !ok {
		panic(abortf("slice over non-array object %s (%T)", s.Arr, root))
	}
	return av
}

func (fr *FnRun) setArr(st *State, s *SliceV, av *ArrayV) {
	if why, ok := st.stale[s.Arr]; ok {
		panic(abortf("write to stale array %s (%s)", s.Arr, why))
	}
	st.checkWrite(s.Arr)
	if s.Arr.Merged {
		e := abortf("in-place write to %s, an array merged from two different backing arrays", s.Arr)
		e.mergedWrite = s.Arr
		panic(e)
	}
	if len(s.Base) == 0 {
		st.heap[s.Arr] = av
		return
	}
	st.heap[s.Arr] = fr.ex.storePath(st, fr.ex.heapGet(st, s.Arr), s.Base, av)
}

// sliceData returns the array content of the slice's backing array.
func (fr *FnRun) sliceData(st *State, s *SliceV) ArrData {
	if s.Arr == nil {
		return fr.ex.zeroArrData(s.Elem, "nilslice")
	}
	return fr.arrOf(st, s).Data
}

func (fr *FnRun) setSliceData(st *State, s *SliceV, d ArrData) {
	av := fr.arrOf(st, s)
	fr.setArr(st, s, &ArrayV{Elem: av.Elem, N: av.N, Data: d})
}

func (fr *FnRun) indexAddr(st *State, x *ssa.IndexAddr) {
	ex := fr.ex
	idx := fr.term(st, x.Index)
	switch v := ex.force(st, fr.value(st, x.X)).(type) {
	case *SliceV:
		in := And(Le(Int(0), idx), Lt(idx, v.Len))
		fr.oblige(st, "bounds", fr.ordOf(x), in, nil, "slice index in range")
		st.assume(in)
		if v.ViewW > 0 {
			st.vals[x] = &PtrV{Nil: tFalse, Obj: v.Arr, Elem: v.Elem, ViewOf: v, ViewIdx: idx}
			return
		}
		st.vals[x] = &PtrV{Nil: tFalse, Obj: v.Arr, Path: appendPath(v.Base, PathElem{Idx: Add(v.Off, idx)}), Elem: v.Elem}
	case *PtrV:
		at, ok := under(v.Elem).(*types.Array)
		if !ok {
			panic(abortf("IndexAddr on pointer to %s", v.Elem))
		}
		fr.oblige(st, "nil", fr.ordOf(x)+"p", Not(v.Nil), nil, "array pointer is not nil")
		st.assume(Not(v.Nil))
		in := And(Le(Int(0), idx), Lt(idx, Int(at.Len())))
		fr.oblige(st, "bounds", fr.ordOf(x), in, nil, "array index in range")
		st.assume(in)
		st.vals[x] = &PtrV{Nil: tFalse, Obj: v.Obj, Path: appendPath(v.Path, PathElem{Idx: idx}), Elem: at.Elem()}
	default:
		panic(abortf("IndexAddr on %T", v))
	}
}

func (fr *FnRun) slice(st *State, x *ssa.Slice) {
	ex := fr.ex
	opt := func(v ssa.Value) *Term {
		if v == nil {
			return nil
		}
		return fr.term(st, v)
	}
	lo, hi, mx := opt(x.Low), opt(x.High), opt(x.Max)
	if lo == nil {
		lo = Int(0)
	}
	switch v := ex.force(st, fr.value(st, x.X)).(type) {
	case *SliceV:
		if hi == nil {
			hi = v.Len
		}
		capLimit := v.Cap
		if mx != nil {
			capLimit = mx
		}
		goal := And(Le(Int(0), lo), Le(lo, hi), Le(hi, capLimit), Le(capLimit, v.Cap))
		fr.oblige(st, "slice", fr.ordOf(x), goal, nil, "slice bounds in range")
		st.assume(goal)
		st.vals[x] = &SliceV{Nil: v.Nil, Arr: v.Arr, Off: Add(v.Off, lo), Len: Sub(hi, lo), Cap: Sub(capLimit, lo), Elem: v.Elem, ViewW: v.ViewW, ViewElem: v.ViewElem, Base: v.Base}
	case *StrV:
		if hi == nil {
			hi = v.Len
		}
		goal := And(Le(Int(0), lo), Le(lo, hi), Le(hi, v.Len))
		fr.oblige(st, "slice", fr.ordOf(x), goal, nil, "string slice bounds in range")
		st.assume(goal)
		st.vals[x] = &StrV{Arr: fr.shifted(st, v.Arr, lo, Sub(hi, lo)), Len: Sub(hi, lo)}
	case *PtrV:
		at, ok := under(v.Elem).(*types.Array)
		if !ok {
			panic(abortf("Slice of pointer to %s", v.Elem))
		}
		fr.oblige(st, "nil", fr.ordOf(x)+"p", Not(v.Nil), nil, "array pointer is not nil")
		st.assume(Not(v.Nil))
		n := Int(at.Len())
		if hi == nil {
			hi = n
		}
		capLimit := n
		if mx != nil {
			capLimit = mx
		}
		goal := And(Le(Int(0), lo), Le(lo, hi), Le(hi, capLimit), Le(capLimit, n))
		fr.oblige(st, "slice", fr.ordOf(x), goal, nil, "array slice bounds in range")
		st.assume(goal)
		st.vals[x] = &SliceV{Nil: tFalse, Arr: v.Obj, Off: lo, Len: Sub(hi, lo), Cap: Sub(capLimit, lo), Elem: at.Elem(), Base: v.Path}
	default:
		panic(abortf("Slice of %T", v))
	}
}

func (fr *FnRun) sliceToArrayPtr(st *State, x *ssa.SliceToArrayPointer) {
	ex := fr.ex
	s, ok := ex.force(st, fr.value(st, x.X)).(*SliceV)
	if !ok {
		panic(abortf("SliceToArrayPointer of %T", fr.value(st, x.X)))
	}
	at := under(x.Type().(*types.Pointer).Elem()).(*types.Array)
	goal := Le(Int(at.Len()), s.Len)
	fr.oblige(st, "s2a", fr.ordOf(x), goal, nil, "slice long enough for array conversion")
	st.assume(goal)
	// a snapshot object holding the N cells (sufficient for the load-only uses in this code base)
	data, ok := fr.sliceData(st, s).(*Term)
	if !ok || s.ViewW > 0 {
		panic(abortf("SliceToArrayPointer on non-scalar slice"))
	}
	o := ex.newObj(ex.fresh("s2a"), at)
	st.heap[o] = &ArrayV{Elem: at.Elem(), N: at.Len(), Data: fr.shifted(st, data, s.Off, Int(at.Len()))}
	st.vals[x] = &PtrV{Nil: tFalse, Obj: o, Elem: at}
	_ = ex
}

func (fr *FnRun) typeAssert(st *State, x *ssa.TypeAssert) {
	ex := fr.ex
	v := ex.force(st, fr.value(st, x.X))
	iv, ok := v.(*IfaceV)
	if !ok {
		panic(abortf("TypeAssert on %T", v))
	}
	var okT *Term
	var res Val
	_, toIface := under(x.AssertedType).(*types.Interface)
	switch {
	case iv.Nil.IsTrue():
		okT = tFalse
		res = ex.zeroVal(x.AssertedType, "assert")
	case iv.Dyn != nil && !toIface:
		if types.Identical(iv.Dyn, x.AssertedType) {
			okT = Not(iv.Nil)
			res = iv.Pay
		} else {
			okT = tFalse
			res = ex.zeroVal(x.AssertedType, "assert")
		}
	case iv.Dyn != nil && toIface:
		it := under(x.AssertedType).(*types.Interface)
		if types.Implements(iv.Dyn, it) {
			okT = Not(iv.Nil)
			res = &IfaceV{Nil: iv.Nil, Dyn: iv.Dyn, Pay: iv.Pay, Obj: iv.Obj, T: x.AssertedType}
		} else {
			okT = tFalse
			res = ex.zeroVal(x.AssertedType, "assert")
		}
	default:
		base := "assert"
		if iv.Obj != nil {
			base = iv.Obj.Name
		}
		tn := sanitize(types.TypeString(x.AssertedType, func(p *types.Package) string { return p.Name() }))
		okT = And(Not(iv.Nil), Var(base+".is."+tn, SBool))
		if toIface {
			res = &IfaceV{Nil: Not(okT), Obj: iv.Obj, T: x.AssertedType}
		} else {
			res = ex.freshVal(x.AssertedType, base+".as."+tn)
			if pv, ok := res.(*PtrV); ok {
				pv.Nil = tFalse
			}
		}
	}
	if x.CommaOk {
		st.vals[x] = &TupleV{E: []Val{res, okT}}
		return
	}
	fr.oblige(st, "assert", fr.ordOf(x), okT, nil, "type assertion to "+x.AssertedType.String()+" succeeds")
	st.assume(okT)
	st.vals[x] = res
}

// ---------------------------------------------------------------------------
// unsafe byte-view idiom (see DESIGN 2.4)

type unsafeV struct {
	Of      *PtrV // pointer that was converted to unsafe.Pointer
	Arr     *Obj  // backing array identity when reinterpreting a slice header's Data
	Off     *Term
	Elem    types.Type
	OrigLen *Term
	OrigCap *Term
	NilT    *Term
}

func (fr *FnRun) toUnsafe(st *State, v Val, from types.Type) Val {
	if p, ok := v.(*PtrV); ok {
		return &unsafeV{Of: p}
	}
	panic(abortf("conversion of %T to unsafe.Pointer", v))
}

func isSliceHeaderStruct(t types.Type) bool {
	s, ok := under(t).(*types.Struct)
	if !ok || s.NumFields() != 3 {
		return false
	}
	return s.Field(0).Name() == "Data" && s.Field(1).Name() == "Len" && s.Field(2).Name() == "Cap"
}

func (fr *FnRun) fromUnsafe(st *State, v Val, to types.Type) Val {
	u, ok := v.(*unsafeV)
	if !ok {
		panic(abortf("conversion from unsafe.Pointer of %T", v))
	}
	pt, ok := under(to).(*types.Pointer)
	if !ok || u.Of == nil {
		panic(abortf("unsupported unsafe conversion to %s", to))
	}
	// *[]T (or *NamedSlice) -> *slice{Data,Len,Cap}  and back
	return &PtrV{Nil: u.Of.Nil, Obj: u.Of.Obj, Path: u.Of.Path, Elem: pt.Elem(), }
}

func guardExempt(db *SpecDB, gk, fkey string) bool {
	for _, e := range db.GuardExc[gk] {
		if e != "" && strings.HasSuffix(fkey, e) {
			return true
		}
	}
	return false
}

// checkGuard: lock discipline.  An access to a field declared `guarded (T) f by m` must happen while
// the mutex T.m of the same struct is held (ghost `held` of sync.Mutex, set by Lock, cleared by
// Unlock).  All accesses being made under the lock is what excludes a data race on the field.
func (fr *FnRun) checkGuard(st *State, in ssa.Instruction, addr ssa.Value, what string) {
	if len(fr.ex.DB.Guarded) == 0 {
		return
	}
	// the accessed location may lie inside a guarded field (v.guarded.sub[i]): walk up the address
	for cur := addr; ; {
		switch a := cur.(type) {
		case *ssa.FieldAddr:
			fr.checkGuardAt(st, in, a, what)
			cur = a.X
		case *ssa.IndexAddr:
			cur = a.X
		default:
			return
		}
	}
}

func (fr *FnRun) checkGuardAt(st *State, in ssa.Instruction, fa *ssa.FieldAddr, what string) {
	ex := fr.ex
	if al, ok := fa.X.(*ssa.Alloc); ok && !al.Heap {
		return // a struct in this function's own frame: not shared
	}
	pt, ok := fa.X.Type().Underlying().(*types.Pointer)
	if !ok {
		return
	}
	lock, ok := ex.DB.Guarded[TypeKey(pt.Elem())+"."+fieldName(fa)]
	if !ok {
		return
	}
	gk := TypeKey(pt.Elem()) + "." + fieldName(fa)
	if guardExempt(ex.DB, gk, FuncKey(fr.fn)) || (in.Parent() != nil && guardExempt(ex.DB, gk, FuncKey(in.Parent()))) {
		ex.Assumptions["accesses to guarded field "+gk+" in "+ShortKey(FuncKey(fr.fn))+" are exempt from the lock obligation (declared single-threaded by the contract file: not checked)"] = true
		return
	}
	stt, ok := under(pt.Elem()).(*types.Struct)
	if !ok {
		return
	}
	base := fr.ptr(st, fa.X)
	if base.Obj == nil {
		// a guarded field reached through a pointer the executor cannot resolve: never let it pass
		fr.oblige(st, "guard", fr.ordOf(in), tFalse, nil, what+" of "+fieldName(fa)+" through an unresolved pointer: cannot show that "+lock+" is held")
		return
	}
	found := false
	for i := 0; i < stt.NumFields(); i++ {
		if stt.Field(i).Name() == lock {
			found = true
		}
	}
	if !found {
		// the declared lock does not exist in the struct (anymore): the access is unprotected
		fr.oblige(st, "guard", fr.ordOf(in), tFalse, nil, what+" of "+fieldName(fa)+" while "+lock+" is held (the struct has no field "+lock+")")
		return
	}
	for i := 0; i < stt.NumFields(); i++ {
		if stt.Field(i).Name() != lock {
			continue
		}
		lp := &PtrV{Nil: tFalse, Obj: base.Obj, Path: appendPath(base.Path, PathElem{Field: i}), Elem: stt.Field(i).Type()}
		mv, ok := ex.force(st, ex.load(st, lp)).(*StructV)
		if !ok || mv.Ghost == nil {
			panic(abortf("guarded field %s: lock %s has no ghost state (declare ghost field held on its type)", fieldName(fa), lock))
		}
		held, ok := mv.Ghost["held"].(*Term)
		if !ok {
			panic(abortf("guarded field %s: lock %s has no ghost `held`", fieldName(fa), lock))
		}
		fr.oblige(st, "guard", fr.ordOf(in), held, nil, what+" of "+fieldName(fa)+" while "+lock+" is held")
		return
	}
}
