package main

import (
	"go/types"

	"golang.org/x/tools/go/ssa"
)

func (fr *FnRun) builtin(st *State, site ssa.Instruction, c *ssa.CallCommon, name string, args []Val, k callK) {
	ex := fr.ex
	for i := range args {
		args[i] = ex.force(st, args[i])
	}
	switch name {
	case "len":
		switch v := args[0].(type) {
		case *SliceV:
			k(st, v.Len)
		case *StrV:
			k(st, v.Len)
		case *ArrayV:
			k(st, Int(v.N))
		case *MapV:
			k(st, fr.mapLen(st, v))
		case *PtrV:
			at := under(v.Elem).(*types.Array)
			k(st, Int(at.Len()))
		case *OpaqueV:
			r := ex.newVar(ex.fresh("chanlen"), SInt, nil)
			st.assume(Le(Int(0), r))
			k(st, r)
		default:
			panic(abortf("len of %T", v))
		}
		return
	case "cap":
		switch v := args[0].(type) {
		case *SliceV:
			k(st, v.Cap)
		case *ArrayV:
			k(st, Int(v.N))
		default:
			panic(abortf("cap of %T", v))
		}
		return
	case "append":
		k(st, fr.appendBuiltin(st, site, args))
		return
	case "copy":
		k(st, fr.copyBuiltin(st, site, args))
		return
	case "min", "max":
		r := args[0].(*Term)
		for _, a := range args[1:] {
			t := a.(*Term)
			if name == "min" {
				r = Ite(Le(r, t), r, t)
			} else {
				r = Ite(Le(r, t), t, r)
			}
		}
		k(st, r)
		return
	case "clear":
		switch v := args[0].(type) {
		case *SliceV:
			if v.Arr != nil {
				av := fr.arrOf(st, v)
				nd := ex.freshArrData(av.Elem, ex.fresh(v.Arr.Name))
				if ot, ok := av.Data.(*Term); ok {
					nt := nd.(*Term)
					kk := Var("k!cl", SInt)
					inWin := And(Le(v.Off, kk), Lt(kk, Add(v.Off, v.Len)))
					z, _ := ex.zeroVal(v.Elem, "z").(*Term)
					if z != nil {
						st.assume(Forall([]*Term{kk}, Eq(Select(nt, kk), Ite(inWin, z, Select(ot, kk))), Select(nt, kk)))
					}
				}
				fr.setArr(st, v, &ArrayV{Elem: av.Elem, N: av.N, Data: nd})
			}
		case *MapV:
			if v.Obj != nil {
				mt := under(v.Obj.T).(*types.Map)
				st.heap[v.Obj] = ex.emptyMap(mt)
			}
		}
		k(st, &TupleV{})
		return
	case "delete":
		fr.mapDelete(st, args[0].(*MapV), args[1])
		k(st, &TupleV{})
		return
	case "print", "println":
		k(st, &TupleV{})
		return
	case "close":
		k(st, &TupleV{})
		return
	case "recover":
		k(st, &IfaceV{Nil: tTrue})
		return
	case "Sizeof":
		// unsafe.Sizeof of a value whose type is a type parameter (otherwise it is a constant): an
		// unknown non-negative size, the same term for every use of the same type parameter
		k(st, fr.sizeofTerm(st, c.Args[0].Type()))
		return
	case "ssa:wrapnilchk":
		if p, ok := args[0].(*PtrV); ok {
			fr.oblige(st, "nil", fr.ordOf(site)+"w", Not(p.Nil), nil, "method value receiver is not nil")
			st.assume(Not(p.Nil))
		}
		k(st, args[0])
		return
	}
	panic(abortf("unsupported builtin %s", name))
}

// appendBuiltin models append with the "reallocate" model: the result lives in
// a new array object whose content equals the old prefix followed by the new
// elements; the old array becomes stale when the result may share it (it is a
// tool error, not a silent unsoundness, if it is touched again).
func (fr *FnRun) appendBuiltin(st *State, site ssa.Instruction, args []Val) Val {
	ex := fr.ex
	s, ok := args[0].(*SliceV)
	if !ok {
		panic(abortf("append to %T", args[0]))
	}
	if s.ViewW > 0 {
		panic(abortf("append to a byte view"))
	}
	var addLen *Term
	var src *SliceV
	var srcStr *StrV
	switch a := args[1].(type) {
	case *SliceV:
		src = a
		addLen = a.Len
	case *StrV:
		srcStr = a
		addLen = a.Len
	default:
		panic(abortf("append of %T", args[1]))
	}
	if addLen.IsInt() && addLen.I.Sign() == 0 {
		return s
	}
	newLen := Add(s.Len, addLen)
	o := ex.newObj(ex.fresh("app"), types.NewSlice(s.Elem))
	o.IsArr = true
	var oldData ArrData
	if s.Arr != nil {
		oldData = fr.sliceData(st, s)
	} else {
		oldData = ex.zeroArrData(s.Elem, o.Name)
	}
	// capacity: any value >= new length (growth policy is abstracted)
	nc := ex.newVar(ex.fresh("appcap"), SInt, nil)
	st.assume(And(Le(newLen, nc), Le(nc, IntB(Pow2(47)))))
	st.assume(Le(newLen, IntB(Pow2(47))))
	// when the capacity suffices Go appends in place, keeping cap
	res := &SliceV{Nil: tFalse, Arr: o, Off: s.Off, Len: newLen, Cap: nc, Elem: s.Elem}
	var nd ArrData
	if src != nil && src.Len.IsInt() && src.Len.I.IsInt64() && src.Len.I.Int64() <= 8 && src.ViewW == 0 {
		// small constant number of elements: explicit stores
		nd = oldData
		sd := fr.sliceData(st, src)
		for i := int64(0); i < src.Len.I.Int64(); i++ {
			el := ex.readElem(st, sd, src.Elem, Add(src.Off, Int(i)))
			nd = ex.writeElem(st, nd, s.Elem, Add(s.Off, Add(s.Len, Int(i))), el)
		}
	} else {
		base := Add(s.Off, s.Len)
		kk := Var("k!a", SInt)
		if src != nil && src.ViewW > 0 {
			ot, ok1 := oldData.(*Term)
			if !ok1 {
				panic(abortf("append of a byte view to a non-byte slice"))
			}
			nt := Var(ex.fresh("appdata"), ot.Sort)
			st.assume(Forall([]*Term{kk}, Implies(Lt(kk, base), Eq(Select(nt, kk), Select(ot, kk))), Select(nt, kk)))
			st.assume(fr.viewCopyFact(st, nt, base, src, addLen))
			nd = nt
		} else {
			newD := ex.freshArrData(s.Elem, ex.fresh("appdata"))
			var srcD ArrData
			var srcOff *Term = Int(0)
			if src != nil {
				srcD = fr.sliceData(st, src)
				srcOff = src.Off
			} else {
				srcD = srcStr.Arr
			}
			ol, nl, sl := arrLeaves(oldData), arrLeaves(newD), arrLeaves(srcD)
			if ol == nil || nl == nil || sl == nil || len(ol) != len(nl) || len(sl) != len(nl) {
				panic(abortf("append of a symbolic number of reference-typed elements"))
			}
			for i := range nl {
				nt, ot, sd := nl[i], ol[i], sl[i]
				st.assume(Forall([]*Term{kk}, Implies(Lt(kk, base), Eq(Select(nt, kk), Select(ot, kk))), Select(nt, kk)))
				// absolute-index form: the pattern is a plain select on the new array, so it fires for
				// any index term however it is written
				st.assume(Forall([]*Term{kk}, Implies(And(Le(base, kk), Lt(kk, Add(base, addLen))), Eq(Select(nt, kk), Select(sd, Add(srcOff, Sub(kk, base))))), Select(nt, kk)))
				fr.uvStableFact(st, ot, nt, base)
				fr.uvCopyFact(st, sd, srcOff, addLen, nt, base)
			}
			nd = newD
		}
	}
	st.heap[o] = &ArrayV{Elem: s.Elem, N: -1, Data: nd}
	if s.Arr != nil {
		if st.stale == nil {
			st.stale = map[*Obj]string{}
		}
		st.stale[s.Arr] = "appended to at " + fr.ordOf(site)
	}
	return res
}

// uvStableFact: the new array agrees with the old one below `limit`, so a varint image lying
// below the limit in the old array is one in the new array.  This is a consequence of the
// uvAt_elim / uvAt_intro axioms (a varint image is characterised by its own bytes); it is emitted
// as a fact because solvers do not find the nested-quantifier argument across long append
// chains.  The consequence itself is discharged once as the lemma proto.lemmaUvAtStable.
func (fr *FnRun) uvStableFact(st *State, ot, nt, limit *Term) {
	ex := fr.ex
	if _, ok := ex.UFs["uvAt"]; !ok || ot.Sort != SArrII {
		return
	}
	if _, ok := ex.UFs["uvsize"]; !ok {
		return
	}
	ex.Assumptions["append keeps varint images below the old length (derived from uvAt_elim/uvAt_intro; discharged as lemma proto.lemmaUvAtStable)"] = true
	P := Var(ex.fresh("P!uv"), SInt)
	x := Var(ex.fresh("x!uv"), SInt)
	pat := App("uvAt", SBool, ot, P, x)
	st.assume(Forall([]*Term{P, x}, Implies(And(pat, Le(Add(P, App("uvsize", SInt, x)), limit)), App("uvAt", SBool, nt, P, x)), pat))
}

// uvCopyFact: addLen bytes were copied from sd[srcOff..] to nt[base..]; a varint image lying inside
// the copied window of the source is one at the translated place in the destination (again a
// consequence of uvAt_elim / uvAt_intro, discharged once as lemma proto.lemmaUvAtCopy).
func (fr *FnRun) uvCopyFact(st *State, sd, srcOff, addLen, nt, base *Term) {
	ex := fr.ex
	if _, ok := ex.UFs["uvAt"]; !ok || sd.Sort != SArrII || nt.Sort != SArrII {
		return
	}
	if _, ok := ex.UFs["uvsize"]; !ok {
		return
	}
	ex.Assumptions["append/copy carries varint images inside the copied window to the destination (derived from uvAt_elim/uvAt_intro; discharged as lemma proto.lemmaUvAtCopy)"] = true
	P := Var(ex.fresh("P!uvc"), SInt)
	x := Var(ex.fresh("x!uvc"), SInt)
	pat := App("uvAt", SBool, sd, P, x)
	st.assume(Forall([]*Term{P, x}, Implies(And(pat, Le(srcOff, P), Le(Add(P, App("uvsize", SInt, x)), Add(srcOff, addLen))), App("uvAt", SBool, nt, Add(base, Sub(P, srcOff)), x)), pat))
}

func (fr *FnRun) copyBuiltin(st *State, site ssa.Instruction, args []Val) Val {
	ex := fr.ex
	dst, ok := args[0].(*SliceV)
	if !ok {
		panic(abortf("copy into %T", args[0]))
	}
	var srcLen *Term
	var src *SliceV
	var srcStr *StrV
	switch a := args[1].(type) {
	case *SliceV:
		src, srcLen = a, a.Len
	case *StrV:
		srcStr, srcLen = a, a.Len
	default:
		panic(abortf("copy from %T", args[1]))
	}
	n := Ite(Le(dst.Len, srcLen), dst.Len, srcLen)
	if dst.Arr == nil {
		return n
	}
	if dst.ViewW > 0 {
		fr.copyIntoView(st, dst, src, n)
		return n
	}
	dd, ok := fr.sliceData(st, dst).(*Term)
	if !ok {
		panic(abortf("copy into non-scalar slice"))
	}
	nt := Var(ex.fresh("copydata"), dd.Sort)
	kk := Var("k!cp", SInt)
	// outside the window unchanged
	st.assume(Forall([]*Term{kk}, Implies(Or(Lt(kk, dst.Off), Le(Add(dst.Off, n), kk)), Eq(Select(nt, kk), Select(dd, kk))), Select(nt, kk)))
	switch {
	case src != nil && src.ViewW > 0:
		st.assume(fr.viewCopyFact(st, nt, dst.Off, src, n))
	case src != nil:
		sd, ok2 := fr.sliceData(st, src).(*Term)
		if !ok2 {
			panic(abortf("copy from non-scalar slice"))
		}
		st.assume(Forall([]*Term{kk}, Implies(And(Le(Int(0), kk), Lt(kk, n)), Eq(Select(nt, Add(dst.Off, kk)), Select(sd, Add(src.Off, kk)))), Select(nt, Add(dst.Off, kk))))
	default:
		st.assume(Forall([]*Term{kk}, Implies(And(Le(Int(0), kk), Lt(kk, n)), Eq(Select(nt, Add(dst.Off, kk)), Select(srcStr.Arr, kk))), Select(nt, Add(dst.Off, kk))))
	}
	fr.setSliceData(st, dst, nt)
	return n
}

// ---------------------------------------------------------------------------
// maps with scalar keys (and string keys through an uninterpreted key sort)

// mapKeySort: scalar keys keep their sort; string keys are abstracted to the uninterpreted sort
// U_strkey through strkey(bytes, len) - equal key terms denote equal strings, different terms may
// or may not (an over-approximation of map behaviour: a lookup may miss where the real one hits).
func mapKeySort(t types.Type) (Sort, bool) {
	if isString(t) {
		return Sort("U_strkey"), true
	}
	return scalarSort(t)
}

func (fr *FnRun) mapKeyTerm(v Val) (*Term, bool) {
	switch x := v.(type) {
	case *Term:
		return x, true
	case *StrV:
		fr.ex.Assumptions["string map keys are abstracted by an uninterpreted function of (bytes, length): lookups are over-approximated"] = true
		return fr.uf("strkey", Sort("U_strkey"), x.Arr, x.Len), true
	}
	return nil, false
}

func (ex *Exec) emptyMap(mt *types.Map) *MapObjV {
	ks, ok := mapKeySort(mt.Key())
	if !ok {
		panic(abortf("map with non-scalar key %s", mt.Key()))
	}
	has := ex.constArr(ks, SBool, tFalse)
	return &MapObjV{Has: has, Val: ex.freshMapVals(mt, "emptymap"), Len: Int(0)}
}

func (ex *Exec) freshMapVals(mt *types.Map, name string) ArrData {
	ks, _ := mapKeySort(mt.Key())
	if vs, ok := scalarSort(mt.Elem()); ok {
		return Var(ex.fresh(name+".vals"), ArrSort(ks, vs))
	}
	return &RefArr{Elem: mt.Elem(), Base: ex.fresh(name), Known: map[string]Val{}}
}

func (ex *Exec) constArr(idx, elem Sort, v *Term) *Term {
	n := "const_" + sortTag(idx) + "_" + sortTag(elem) + "_" + sanitize(v.String())
	if _, ok := ex.UFs[n]; !ok {
		ex.UFs[n] = &UFSig{Name: n, Ret: ArrSort(idx, elem)}
		k := Var("k!ca", idx)
		arr := App(n, ArrSort(idx, elem))
		ex.AxiomTs = append(ex.AxiomTs, Forall([]*Term{k}, Eq(Select(arr, k), v), Select(arr, k)))
	}
	return App(n, ArrSort(idx, elem))
}

func (ex *Exec) freshMap(m *MapV, name string) *MapObjV {
	mt := under(m.Obj.T).(*types.Map)
	ks, ok := mapKeySort(mt.Key())
	if !ok {
		panic(abortf("map with non-scalar key %s", mt.Key()))
	}
	l := ex.newVar(name+".len", SInt, nil)
	ex.addVarFact(l, Le(Int(0), l))
	return &MapObjV{Has: Var(name+".has", ArrSort(ks, SBool)), Val: ex.freshMapVals(mt, name), Len: l}
}

func (fr *FnRun) mapObj(st *State, m *MapV) *MapObjV {
	ex := fr.ex
	if m.Obj == nil {
		mt := &types.Map{}
		_ = mt
		panic(abortf("access to nil map literal"))
	}
	if v, ok := st.heap[m.Obj]; ok {
		return v.(*MapObjV)
	}
	if cv, ok := ex.constMapObjs[m.Obj]; ok {
		st.heap[m.Obj] = cv
		return cv
	}
	mo := ex.freshMap(m, m.Obj.Name)
	st.heap[m.Obj] = mo
	return mo
}

func (fr *FnRun) mapLen(st *State, m *MapV) *Term {
	if m.Nil.IsTrue() {
		return Int(0)
	}
	return fr.mapObj(st, m).Len
}

func (fr *FnRun) lookup(st *State, x *ssa.Lookup) {
	ex := fr.ex
	switch v := ex.force(st, fr.value(st, x.X)).(type) {
	case *StrV:
		idx := fr.term(st, x.Index)
		in := And(Le(Int(0), idx), Lt(idx, v.Len))
		fr.oblige(st, "bounds", fr.ordOf(x), in, nil, "string index in range")
		st.assume(in)
		st.vals[x] = Select(v.Arr, idx)
	case *MapV:
		key, ok := fr.mapKeyTerm(ex.force(st, fr.value(st, x.Index)))
		if !ok {
			panic(abortf("map lookup with non-scalar key"))
		}
		mt := under(x.X.Type()).(*types.Map)
		var has *Term
		var val Val
		if v.Nil.IsTrue() {
			has = tFalse
			val = ex.zeroVal(mt.Elem(), "lookup")
		} else {
			mo := fr.mapObj(st, v)
			has = And(Not(v.Nil), Select(mo.Has, key))
			got := ex.readElem(st, mo.Val, mt.Elem(), key)
			if gt, ok := got.(*Term); ok {
				z := ex.zeroVal(mt.Elem(), "lookup").(*Term)
				val = Ite(has, gt, z)
			} else {
				val = got // reference values: zero-ness not modelled when absent
				if !x.CommaOk {
					ex.Assumptions["map lookup of a reference-typed value without comma-ok is treated as present"] = true
				}
			}
		}
		if x.CommaOk {
			st.vals[x] = &TupleV{E: []Val{val, has}}
		} else {
			st.vals[x] = val
		}
	default:
		panic(abortf("Lookup on %T", v))
	}
}

func (fr *FnRun) mapUpdate(st *State, x *ssa.MapUpdate) {
	ex := fr.ex
	m, ok := ex.force(st, fr.value(st, x.Map)).(*MapV)
	if !ok {
		panic(abortf("MapUpdate on %T", fr.value(st, x.Map)))
	}
	fr.oblige(st, "mapnil", fr.ordOf(x), Not(m.Nil), nil, "assignment to entry in non-nil map")
	if m.Nil.IsTrue() || m.Obj == nil {
		// definitely nil: the program panics here; the obligation above decides whether this point
		// is reachable at all, the path ends
		panic(pathStop{})
	}
	st.assume(Not(m.Nil))
	key, ok := fr.mapKeyTerm(ex.force(st, fr.value(st, x.Key)))
	if !ok {
		panic(abortf("map update with non-scalar key"))
	}
	mo := fr.mapObj(st, m)
	mt := under(x.Map.Type()).(*types.Map)
	had := Select(mo.Has, key)
	st.heap[m.Obj] = &MapObjV{
		Has: Store(mo.Has, key, tTrue),
		Val: ex.writeElem(st, mo.Val, mt.Elem(), key, ex.force(st, fr.value(st, x.Value))),
		Len: Ite(had, mo.Len, Add(mo.Len, Int(1))),
	}
}

func (fr *FnRun) mapDelete(st *State, m *MapV, key Val) {
	if m.Nil.IsTrue() || m.Obj == nil {
		return
	}
	kt, ok := fr.mapKeyTerm(fr.ex.force(st, key))
	if !ok {
		panic(abortf("delete with non-scalar key"))
	}
	mo := fr.mapObj(st, m)
	had := Select(mo.Has, kt)
	st.heap[m.Obj] = &MapObjV{Has: Store(mo.Has, kt, tFalse), Val: mo.Val, Len: Ite(had, Sub(mo.Len, Int(1)), mo.Len)}
}

// range over maps / strings: not needed by the functions under contract so far
func (fr *FnRun) rangeInit(st *State, x *ssa.Range) {
	if fr.clearRanges[x] {
		// map-clearing idiom (see mapClearIdiom): the whole loop is clear(m)
		fr.ex.Assumptions["`for k := range m { delete(m, k) }` is executed as clear(m) (NaN keys, which delete cannot remove, are not modelled)"] = true
		if m, ok := fr.ex.force(st, fr.value(st, x.X)).(*MapV); ok {
			if !m.Nil.IsTrue() && m.Obj != nil {
				mt := under(m.Obj.T).(*types.Map)
				mo := fr.ex.emptyMap(mt)
				if !m.Nil.IsFalse() {
					// possibly nil: a nil map stays nil (its heap object is never read)
				}
				st.heap[m.Obj] = mo
			}
			st.vals[x] = &OpaqueV{T: x.Type(), Name: "range-cleared"}
			return
		}
	}
	panic(abortf("range over %s unsupported", x.X.Type()))
}

func (fr *FnRun) rangeNext(st *State, x *ssa.Next) {
	if it, ok := st.vals[x.Iter].(*OpaqueV); ok && it.Name == "range-cleared" {
		tt := x.Type().(*types.Tuple)
		st.vals[x] = &TupleV{E: []Val{tFalse, fr.ex.zeroVal(tt.At(1).Type(), "rk"), fr.ex.zeroVal(tt.At(2).Type(), "rv")}}
		return
	}
	panic(abortf("range/next unsupported"))
}

// ---------------------------------------------------------------------------
// byte views (unsafe idiom): implemented in view.go


// arrLeaves flattens array data into its SMT array terms (nil when a
// reference-typed component is present).
func arrLeaves(d ArrData) []*Term {
	switch a := d.(type) {
	case *Term:
		return []*Term{a}
	case *StructArr:
		var out []*Term
		for _, f := range a.F {
			l := arrLeaves(f)
			if l == nil {
				return nil
			}
			out = append(out, l...)
		}
		return out
	case *NestedArr:
		return []*Term{a.Data}
	}
	return nil
}

// sizeofTerm: the size of a type as a term; a fresh non-negative constant (one per type parameter
// and function run) when the type is a type parameter.
func (fr *FnRun) sizeofTerm(st *State, t types.Type) *Term {
	if !isTypeParam(t) {
		return Int(fr.ex.sizeOf(t))
	}
	v := Var("sizeof!"+sanitize(t.String()), SInt)
	st.assume(Le(Int(0), v))
	return v
}
