package main

// Sticky read failure (C07): every function that takes a *proto.Reader and
// returns an error gets the implicit postcondition
//     r.failed && !old(r.failed) ==> err != nil
// ("a read that failed during the call is never swallowed").  Functions
// without an explicit contract get a default contract made of exactly that
// clause, with an unknown frame (everything reachable from the arguments is
// havocked); loops without an explicit invariant get the default invariant
// "no new failure so far" with the whole heap havocked.

import (
	"fmt"
	"go/types"

	"golang.org/x/tools/go/ssa"
)

const readerType = repoModule + "/proto.Reader"

func isReaderPtr(t types.Type) bool {
	p, ok := types.Unalias(t).(*types.Pointer)
	return ok && TypeKey(p.Elem()) == readerType
}

func isErrorType(t types.Type) bool {
	n, ok := types.Unalias(t).(*types.Named)
	return ok && n.Obj().Pkg() == nil && n.Obj().Name() == "error"
}

// stickySig: index of the *Reader parameter (in ssa params / call args, receiver included)
// and of the error result.
func stickySig(sig *types.Signature, hasRecvArg bool) (int, int, bool) {
	ri := -1
	off := 0
	if sig.Recv() != nil && hasRecvArg {
		if isReaderPtr(sig.Recv().Type()) {
			ri = 0
		}
		off = 1
	}
	if ri < 0 {
		for i := 0; i < sig.Params().Len(); i++ {
			if isReaderPtr(sig.Params().At(i).Type()) {
				ri = off + i
				break
			}
		}
	}
	ei := -1
	for i := 0; i < sig.Results().Len(); i++ {
		if isErrorType(sig.Results().At(i).Type()) {
			ei = i
		}
	}
	if ri < 0 || ei < 0 {
		return 0, 0, false
	}
	return ri, ei, true
}

var stickyClause *Clause
var stickyInv *Clause

func init() {
	e, err := ParseExpr("!(sticky_r.failed && !old(sticky_r.failed)) || sticky_err != nil")
	if err != nil {
		panic(err)
	}
	stickyClause = &Clause{Kind: "ensures", E: e, Src: "r.failed && !old(r.failed) ==> err != nil", Props: []string{"C07"}, Label: "sticky"}
	i, err := ParseExpr("!(sticky_r.failed && !old(sticky_r.failed))")
	if err != nil {
		panic(err)
	}
	stickyInv = &Clause{Kind: "invariant", E: i, Src: "no new read failure so far: !(r.failed && !old(r.failed))", Props: []string{"C07"}, Label: "sticky"}
}

// stickyTerm evaluates the implicit clause for reader value r and error value err.
func (fr *FnRun) stickyTerm(st, old *State, r Val, errv Val) *Term {
	vars := map[string]Val{"sticky_r": r, "sticky_err": errv}
	return fr.evalBool(stickyClause.E, &Env{st: st, old: old, vars: vars, fr: fr, pkg: repoModule + "/proto"})
}

func (fr *FnRun) stickyInvTerm(st, old *State, r Val) *Term {
	vars := map[string]Val{"sticky_r": r}
	return fr.evalBool(stickyInv.E, &Env{st: st, old: old, vars: vars, fr: fr, pkg: repoModule + "/proto"})
}

// checkSticky emits the implicit postcondition at a return of the function under verification.
func (fr *FnRun) checkSticky(st *State, results []Val) {
	ri, ei, ok := stickySig(fr.fn.Signature, true)
	if !ok || ei >= len(results) {
		return
	}
	r := fr.entry.vals[fr.fn.Params[ri]]
	if r == nil {
		return
	}
	if p, ok := r.(*PtrV); ok && !fr.entryNonNil(p) {
		// a nil reader cannot have failed; the clause is about non-nil readers
		st = st.clone()
		st.assume(Not(p.Nil))
	}
	t := fr.stickyTerm(st, fr.entry, r, results[ei])
	fr.oblige(st, "post", "sticky", t, stickyClause, "")
}

func (fr *FnRun) entryNonNil(p *PtrV) bool { return p.Nil.IsFalse() }

// assumeSticky adds the implicit clause of a callee at a call site.
func (fr *FnRun) assumeSticky(st, old *State, sig *types.Signature, args []Val, results []Val, callee string, hasRecvArg bool) {
	ri, ei, ok := stickySig(sig, hasRecvArg)
	if !ok || ri >= len(args) || ei >= len(results) {
		return
	}
	r := fr.ex.force(old, args[ri])
	if p, ok := r.(*PtrV); ok && p.Obj == nil {
		return
	}
	func() {
		defer func() {
			if rec := recover(); rec != nil {
				if _, ok := rec.(*abortErr); ok {
					return
				}
				panic(rec)
			}
		}()
		st.assume(fr.stickyTerm(st, old, r, results[ei]))
		fr.ex.StickyUsed[callee] = true
	}()
}

// defaultLoopSpec: "no new failure so far" for every *Reader parameter, havoc everything.
func (fr *FnRun) defaultLoopSpec(li *loopInfo) *LoopSpec {
	if _, _, ok := stickySig(fr.fn.Signature, true); !ok {
		if fr.ctr != nil {
			// a loop without a spec in a function under contract: the weakest invariant (true) with
			// everything havocked; whatever the contract says about state the loop may touch then
			// fails as a named obligation instead of leaving the function undecided
			return &LoopSpec{Ordinal: li.ordinal, Unroll: -1}
		}
		return nil
	}
	return &LoopSpec{Ordinal: li.ordinal, Invariants: []*Clause{stickyInv}, Unroll: -1}
}

// havocAll forgets the whole heap: every object is re-materialised with fresh names.
func (fr *FnRun) havocAll(st *State) {
	// the call counters are ghost state of the verifier, not memory the code can write: they survive
	// (counters of calls made inside a loop are made unknown separately, see loopCallCounters)
	var keep Val
	if fr.callsObj != nil {
		keep = st.heap[fr.callsObj]
	}
	st.heap = map[*Obj]Val{}
	if keep != nil {
		st.heap[fr.callsObj] = keep
	}
	st.epoch = fr.ex.fresh("ep")
	st.stale = nil
}

func stickyDetail(fn *ssa.Function) string { return fmt.Sprint(fn.Name()) }
