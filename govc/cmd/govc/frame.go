package main

// Frame checking: a function verified against a contract may only change the
// pre-existing state its `modifies` clause names.  At every return the final
// heap is compared with the entry heap; every changed location of an object
// that existed at entry must be covered by a modifies location.  Covered
// means: same object and a path prefix (field locations), the object's
// contents (contents(s), *p), or - for all(x) - any object whose access path
// starts at x.  The check is syntactic (back end "frame") and makes callers'
// use of the callee's frame sound.

import (
	"os"
	"fmt"
	"go/types"
	"strings"
)

type modLoc struct {
	obj    *Obj
	path   []PathElem
	ghost  string
	whole  bool   // every location of obj
	prefix string // all(x): objects whose name starts with this access path
	src    string
}

// resolveMods evaluates the contract's modifies clause in the entry state.
func (fr *FnRun) resolveMods() []modLoc {
	var out []modLoc
	if fr.ctr == nil {
		return nil
	}
	ex := fr.ex
	entry := fr.entry.clone()
	env := &Env{st: entry, old: entry, vars: fr.env0, fr: fr}
	for _, m := range fr.ctr.Modifies {
		func() {
			defer func() {
				if r := recover(); r != nil {
					if _, ok := r.(*abortErr); ok {
						return // unresolvable location covers nothing
					}
					panic(r)
				}
			}()
			switch m.Kind {
			case "call":
				if m.X.Kind == "ident" && m.X.Name == "all" && len(m.Args) == 1 {
					v := ex.force(entry, fr.eval(m.Args[0], env))
					out = append(out, fr.allLocs(entry, v, m.String())...)
					return
				}
				if m.X.Kind == "ident" && m.X.Name == "pointees" && len(m.Args) == 1 {
					if sv, ok := ex.force(entry, fr.eval(m.Args[0], env)).(*SliceV); ok && sv.Arr != nil {
						// the objects of the elements are named <array name>[index]...
						out = append(out, modLoc{prefix: accessPrefix(sv.Arr.Name) + "[", src: m.String()})
						if av, ok := entry.heap[sv.Arr].(*ArrayV); ok {
							if ra, ok := av.Data.(*RefArr); ok {
								out = append(out, modLoc{prefix: ra.Base + "[", src: m.String()})
							}
						}
					}
					return
				}
				if m.X.Kind == "ident" && m.X.Name == "contents" && len(m.Args) == 1 {
					if mv, ok := ex.force(entry, fr.eval(m.Args[0], env)).(*MapV); ok && mv.Obj != nil {
						out = append(out, modLoc{obj: mv.Obj, whole: true, src: m.String()})
						return
					}
					cv := ex.force(entry, fr.eval(m.Args[0], env))
					if pv, isPtr := cv.(*PtrV); isPtr {
						cv = ex.force(entry, ex.load(entry, pv))
					}
					if s, ok := cv.(*SliceV); ok && s.Arr != nil {
						out = append(out, modLoc{obj: s.Arr, path: s.Base, whole: len(s.Base) == 0, src: m.String()})
					}
					return
				}
			case "un":
				if m.Op == "*" {
					if p, ok := ex.force(entry, fr.eval(m.X, env)).(*PtrV); ok && p.Obj != nil {
						out = append(out, modLoc{obj: p.Obj, path: p.Path, whole: len(p.Path) == 0, src: m.String()})
					}
					return
				}
			case "ident":
				switch x := ex.force(entry, fr.eval(m, env)).(type) {
				case *SliceV:
					if x.Arr != nil {
						out = append(out, modLoc{obj: x.Arr, path: x.Base, whole: len(x.Base) == 0, src: m.String()})
					}
				case *PtrV:
					if x.Obj != nil {
						out = append(out, modLoc{obj: x.Obj, path: x.Path, whole: len(x.Path) == 0, src: m.String()})
					}
				}
				return
			case "sel":
				base := ex.force(entry, fr.eval(m.X, env))
				// a captured variable holding a pointer: the location is in the pointed-to struct
				for i := 0; i < 2; i++ {
					if bp, ok := base.(*PtrV); ok && bp.Obj != nil {
						if inner, ok2 := ex.force(entry, ex.load(entry, bp)).(*PtrV); ok2 && inner.Obj != nil {
							base = inner
							continue
						}
					}
					break
				}
				hp, ho := fr.ghostHolder(entry, base, m.Name)
				if ho != nil {
					out = append(out, modLoc{obj: ho, ghost: m.Name, src: m.String()})
					return
				}
				if hp == nil {
					if p, ok := base.(*PtrV); ok {
						hp = p
					}
				}
				if hp == nil || hp.Obj == nil {
					return
				}
				sv, ok := ex.load(entry, hp).(*StructV)
				if !ok {
					return
				}
				if _, isGhost := sv.Ghost[m.Name]; isGhost {
					out = append(out, modLoc{obj: hp.Obj, path: hp.Path, ghost: m.Name, src: m.String()})
					return
				}
				if stt, ok := under(sv.T).(*types.Struct); ok {
					for i := 0; i < stt.NumFields(); i++ {
						if stt.Field(i).Name() == m.Name {
							out = append(out, modLoc{obj: hp.Obj, path: appendPath(hp.Path, PathElem{Field: i}), src: m.String()})
						}
					}
				}
			}
		}()
	}
	return out
}

func (fr *FnRun) allLocs(st *State, v Val, src string) []modLoc {
	var out []modLoc
	switch x := v.(type) {
	case *PtrV:
		if x.Obj != nil {
			out = append(out, modLoc{obj: x.Obj, path: x.Path, whole: len(x.Path) == 0, src: src})
			out = append(out, modLoc{prefix: accessPrefix(x.Obj.Name), src: src})
		}
	case *SliceV:
		if x.Arr != nil {
			out = append(out, modLoc{obj: x.Arr, whole: true, src: src}, modLoc{prefix: accessPrefix(x.Arr.Name), src: src})
		}
	case *IfaceV:
		if x.Pay != nil {
			out = append(out, fr.allLocs(st, fr.ex.force(st, x.Pay), src)...)
		}
		if x.Obj != nil {
			out = append(out, modLoc{obj: x.Obj, whole: true, src: src}, modLoc{prefix: accessPrefix(x.Obj.Name), src: src})
		}
	case *StructV:
		for _, f := range x.F {
			out = append(out, fr.allLocs(st, fr.ex.force(st, f), src)...)
		}
	case *MapV:
		if x.Obj != nil {
			out = append(out, modLoc{obj: x.Obj, whole: true, src: src})
		}
	}
	return out
}

func accessPrefix(name string) string {
	for _, suf := range []string{"^", ".arr", ".dyn", ".map"} {
		name = strings.TrimSuffix(name, suf)
	}
	return name
}

type changed struct {
	path  []PathElem
	ghost string
	desc  string
}

// diffVal lists the locations where b differs from a (structurally).
func (fr *FnRun) diffVal(entry, fin *State, a, b Val, path []PathElem, desc string, out *[]changed) {
	ex := fr.ex
	if a == b {
		return
	}
	if la, ok := a.(*LazyV); ok {
		if lb, ok2 := b.(*LazyV); ok2 && la.Name == lb.Name {
			return
		}
		a = ex.force(entry, la)
	}
	if lb, ok := b.(*LazyV); ok {
		b = ex.force(fin, lb)
	}
	switch x := a.(type) {
	case *Term:
		if y, ok := b.(*Term); ok && sameTerm(x, y) {
			return
		}
	case *StructV:
		y, ok := b.(*StructV)
		if ok && len(x.F) == len(y.F) {
			var names []string
			if stt, isS := under(x.T).(*types.Struct); isS {
				for i := 0; i < stt.NumFields(); i++ {
					names = append(names, stt.Field(i).Name())
				}
			}
			for i := range x.F {
				n := fmt.Sprint(i)
				if i < len(names) {
					n = names[i]
				}
				fr.diffVal(entry, fin, x.F[i], y.F[i], appendPath(path, PathElem{Field: i}), desc+"."+n, out)
			}
			for g, gv := range x.Ghost {
				if hv, ok := y.Ghost[g]; ok {
					if gt, ok1 := gv.(*Term); ok1 {
						if ht, ok2 := hv.(*Term); ok2 && sameTerm(gt, ht) {
							continue
						}
					}
					*out = append(*out, changed{path: path, ghost: g, desc: desc + "." + g + " (ghost)"})
				}
			}
			return
		}
	case *PtrV:
		if y, ok := b.(*PtrV); ok && x.Obj == y.Obj && samePath(x.Path, y.Path) && sameTerm(x.Nil, y.Nil) {
			return
		}
	case *SliceV:
		if y, ok := b.(*SliceV); ok && x.Arr == y.Arr && sameTerm(x.Off, y.Off) && sameTerm(x.Len, y.Len) && sameTerm(x.Cap, y.Cap) && sameTerm(x.Nil, y.Nil) {
			return
		}
	case *StrV:
		if y, ok := b.(*StrV); ok && sameTerm(x.Arr, y.Arr) && sameTerm(x.Len, y.Len) {
			return
		}
	case *ArrayV:
		if y, ok := b.(*ArrayV); ok && arrDataKey(x.Data) == arrDataKey(y.Data) {
			xr, isRef := x.Data.(*RefArr)
			if !isRef || x.Data == y.Data {
				return
			}
			// reads only memoise elements (Known grows): unchanged unless a write happened
			if yr, ok := y.Data.(*RefArr); ok && xr.Base == yr.Base && xr.Ver == yr.Ver && xr.Dirty == yr.Dirty {
				return
			}
			if os.Getenv("GOVC_DEBUG_FRAME") != "" {
				if yr, ok := y.Data.(*RefArr); ok {
					fmt.Fprintf(os.Stderr, "refarr differs: base %q/%q ver %d/%d dirty %v/%v\n", xr.Base, yr.Base, xr.Ver, yr.Ver, xr.Dirty, yr.Dirty)
				} else {
					fmt.Fprintf(os.Stderr, "refarr vs %T\n", y.Data)
				}
			}
		}
	case *IfaceV:
		if y, ok := b.(*IfaceV); ok && x.Obj == y.Obj && sameTerm(x.Nil, y.Nil) && x.Pay == y.Pay {
			return
		}
		if y, ok := b.(*IfaceV); ok && x.Obj == y.Obj && sameTerm(x.Nil, y.Nil) {
			if px, ok1 := x.Pay.(*PtrV); ok1 {
				if py, ok2 := y.Pay.(*PtrV); ok2 && px.Obj == py.Obj {
					return
				}
			}
		}
	case *MapV:
		if y, ok := b.(*MapV); ok && x.Obj == y.Obj && sameTerm(x.Nil, y.Nil) {
			return
		}
	case *FuncV:
		if y, ok := b.(*FuncV); ok && x.Fn == y.Fn && x.Name == y.Name {
			return
		}
	case *OpaqueV:
		if y, ok := b.(*OpaqueV); ok && x.Name == y.Name {
			return
		}
	case *MapObjV:
		if y, ok := b.(*MapObjV); ok && sameTerm(x.Has, y.Has) && sameTerm(x.Len, y.Len) && arrDataKey(x.Val) == arrDataKey(y.Val) {
			return
		}
	}
	*out = append(*out, changed{path: path, desc: desc})
}

func pathPrefix(p, q []PathElem) bool {
	if len(p) > len(q) {
		return false
	}
	return samePath(p, q[:len(p)])
}

// checkFrame emits one `frame` obligation per changed-but-uncovered location.
func (fr *FnRun) checkFrame(st *State) {
	if fr.ctr == nil || fr.ctr.ModAll || fr.ctr.Flags["trusted"] != "" {
		return
	}
	ex := fr.ex
	mods := fr.resolveMods()
	entry := fr.entry.clone()
	reported := map[string]bool{}
	for o, fv := range st.heap {
		if o.ID > fr.entryMaxObj {
			continue // allocated by this call
		}
		if strings.HasPrefix(o.Name, "global.") || strings.HasPrefix(o.Name, "constmap.") {
			continue
		}
		var ev Val
		if v, ok := fr.entry.heap[o]; ok {
			ev = v
		} else {
			if _, isMap := under(o.T).(*types.Map); isMap && !o.IsArr {
				continue
			}
			ev = ex.heapGet(entry, o)
		}
		var diffs []changed
		fr.diffVal(entry, st, ev, fv, nil, o.Name, &diffs)
		for _, d := range diffs {
			covered := false
			for _, m := range mods {
				if m.prefix != "" {
					if o.Name == m.prefix || strings.HasPrefix(o.Name, m.prefix+".") || strings.HasPrefix(o.Name, m.prefix+"^") || strings.HasPrefix(o.Name, m.prefix+"[") {
						covered = true
					}
					continue
				}
				if m.obj != o {
					continue
				}
				if m.whole {
					covered = true
				} else if m.ghost != "" {
					if d.ghost == m.ghost && pathPrefix(m.path, d.path) {
						covered = true
					}
				} else if d.ghost == "" && pathPrefix(m.path, d.path) {
					covered = true
				} else if d.ghost != "" && len(m.path) > 0 && pathPrefix(m.path, d.path) && len(m.path) <= len(d.path) {
					covered = true
				}
			}
			if !covered && !reported[d.desc] {
				reported[d.desc] = true
				fr.oblige(st, "frame", sanitize(d.desc), tFalse, nil, "location "+d.desc+" is changed but not named by the modifies clause")
			}
		}
	}
	if len(reported) == 0 {
		fr.oblige(st, "frame", "", tTrue, nil, "every changed pre-existing location is named by the modifies clause (syntactic check)")
	}
}
