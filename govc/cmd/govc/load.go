package main

import (
	"fmt"
	"go/types"
	"os"
	"path/filepath"
	"sort"
	"strings"

	"golang.org/x/tools/go/packages"
	"golang.org/x/tools/go/ssa"
	"golang.org/x/tools/go/ssa/ssautil"
)

type Program struct {
	Prog   *ssa.Program
	Pkgs   []*packages.Package
	SSA    []*ssa.Package
	Funcs  map[string]*ssa.Function // canonical key -> function (source functions and closures)
	ByPkg  map[string]*ssa.Package
	Tags   string
	RepoDir string
}

func LoadProgram(dir string, tags string, patterns []string) (*Program, error) {
	cfg := &packages.Config{
		Mode:       packages.LoadAllSyntax,
		Dir:        dir,
		BuildFlags: []string{"-tags=" + tags, "-mod=mod"},
		Env:        append(os.Environ(), "GOFLAGS=-mod=mod", "GOPROXY=off", "GOSUMDB=off", "GOTOOLCHAIN=local"),
	}
	pkgs, err := packages.Load(cfg, patterns...)
	if err != nil {
		return nil, err
	}
	var errs []string
	packages.Visit(pkgs, nil, func(p *packages.Package) {
		for _, e := range p.Errors {
			errs = append(errs, e.Error())
		}
	})
	if len(errs) > 0 {
		return nil, fmt.Errorf("package load errors:\n%s", strings.Join(errs, "\n"))
	}
	prog, spkgs := ssautil.AllPackages(pkgs, ssa.GlobalDebug)
	prog.Build()
	p := &Program{Prog: prog, Pkgs: pkgs, SSA: spkgs, Funcs: map[string]*ssa.Function{}, ByPkg: map[string]*ssa.Package{}, Tags: tags, RepoDir: dir}
	for _, sp := range prog.AllPackages() {
		p.ByPkg[sp.Pkg.Path()] = sp
	}
	for fn := range ssautil.AllFunctions(prog) {
		if fn.Synthetic != "" && fn.Parent() == nil && fn.Origin() == nil {
			// wrappers, thunks, bound methods: executed by inlining, never looked up
			if !strings.HasPrefix(fn.Synthetic, "package initializer") {
				continue
			}
		}
		if fn.Origin() != nil {
			continue // instantiations share the generic body's contract
		}
		k := FuncKey(fn)
		if k == "" {
			continue
		}
		if old, ok := p.Funcs[k]; ok && old != fn {
			// keep the one with a body
			if old.Blocks != nil {
				continue
			}
		}
		p.Funcs[k] = fn
	}
	// declared methods of generic types that nothing instantiates through a method set (AllFunctions
	// walks runtime types only): register their generic bodies too
	for _, sp := range spkgs {
		if sp == nil {
			continue
		}
		for _, m := range sp.Members {
			t, ok := m.(*ssa.Type)
			if !ok {
				continue
			}
			n, ok := types.Unalias(t.Type()).(*types.Named)
			if !ok {
				continue
			}
			for i := 0; i < n.NumMethods(); i++ {
				fn := prog.FuncValue(n.Method(i))
				if fn == nil || fn.Origin() != nil {
					continue
				}
				k := FuncKey(fn)
				if k == "" {
					continue
				}
				if _, ok := p.Funcs[k]; !ok {
					p.Funcs[k] = fn
					for _, an := range fn.AnonFuncs {
						if ak := FuncKey(an); ak != "" {
							if _, ok := p.Funcs[ak]; !ok {
								p.Funcs[ak] = an
							}
						}
					}
				}
			}
		}
	}
	return p, nil
}

// FuncKey is the canonical, line-number-free name of a function:
//   pkgpath.Name, pkgpath.(T).Name, pkgpath.(*T).Name, and <parent>$n for closures.
func FuncKey(fn *ssa.Function) string {
	if fn == nil {
		return ""
	}
	if o := fn.Origin(); o != nil {
		fn = o
	}
	if par := fn.Parent(); par != nil {
		pk := FuncKey(par)
		suffix := strings.TrimPrefix(fn.Name(), par.Name())
		return pk + suffix
	}
	name := fn.Name()
	if recv := fn.Signature.Recv(); recv != nil {
		t := recv.Type()
		star := ""
		if pt, ok := t.(*types.Pointer); ok {
			star = "*"
			t = pt.Elem()
		}
		t = types.Unalias(t)
		if n, ok := t.(*types.Named); ok {
			pp := ""
			if n.Obj().Pkg() != nil {
				pp = n.Obj().Pkg().Path()
			}
			return pp + ".(" + star + n.Obj().Name() + ")." + name
		}
		return ""
	}
	pp := ""
	if fn.Pkg != nil {
		pp = fn.Pkg.Pkg.Path()
	} else if o := fn.Object(); o != nil && o.Pkg() != nil {
		pp = o.Pkg().Path()
	}
	return pp + "." + name
}

// ShortKey strips the module prefix for display.
func ShortKey(k string) string {
	k = strings.ReplaceAll(k, "github.com/ClickHouse/ch-go/", "")
	k = strings.ReplaceAll(k, "github.com/ClickHouse/ch-go.", "ch.")
	return k
}

// TypeKey gives "pkgpath.Name" for named types (pointer stripped), "" otherwise.
func TypeKey(t types.Type) string {
	t = types.Unalias(t)
	if p, ok := t.(*types.Pointer); ok {
		t = types.Unalias(p.Elem())
	}
	if n, ok := t.(*types.Named); ok {
		if n.Obj().Pkg() == nil {
			return n.Obj().Name()
		}
		return n.Obj().Pkg().Path() + "." + n.Obj().Name()
	}
	return ""
}

// SpecDB: all contracts, spec functions, axioms, ghost fields known to a run.
type SpecDB struct {
	Files     []*SpecFile
	Contracts map[string]*Contract
	IfaceCtr  map[string]*Contract // "pkg.Iface.Method"
	Funcs     map[string]*SpecFunc
	Axioms    []*Axiom
	Ghosts    map[string][]*GhostField // type key -> ghost fields
	Valids    map[string][]*ValidSpec
	Opaque    map[string]bool
	Guarded   map[string]string // "TypeKey.field" -> lock field of the same struct
	GuardExc  map[string][]string // "TypeKey.field" -> exempt function key suffixes
	NoEffect  []string
	Delegates map[string]string
	Globals   []*GlobalInv
}

func NewSpecDB() *SpecDB {
	return &SpecDB{Contracts: map[string]*Contract{}, IfaceCtr: map[string]*Contract{}, Funcs: map[string]*SpecFunc{},
		Ghosts: map[string][]*GhostField{}, Valids: map[string][]*ValidSpec{}, Opaque: map[string]bool{}, Delegates: map[string]string{}}
}

func (db *SpecDB) Add(sf *SpecFile) error {
	db.Files = append(db.Files, sf)
	for _, c := range sf.Contracts {
		if c.Iface {
			db.IfaceCtr[c.Key] = c
			continue
		}
		if _, dup := db.Contracts[c.Key]; dup {
			return fmt.Errorf("%s:%d: duplicate contract for %s", c.File, c.Line, c.Key)
		}
		db.Contracts[c.Key] = c
	}
	for _, f := range sf.Funcs {
		if _, dup := db.Funcs[f.Name]; dup {
			return fmt.Errorf("%s: duplicate spec func %s", sf.Path, f.Name)
		}
		db.Funcs[f.Name] = f
	}
	db.Axioms = append(db.Axioms, sf.Axioms...)
	for _, g := range sf.Ghosts {
		k := strings.TrimPrefix(g.Type, "*")
		db.Ghosts[k] = append(db.Ghosts[k], g)
	}
	for _, v := range sf.Valids {
		db.Valids[v.Type] = append(db.Valids[v.Type], v)
	}
	for _, g := range sf.Guarded {
		if db.Guarded == nil {
			db.Guarded = map[string]string{}
			db.GuardExc = map[string][]string{}
		}
		db.Guarded[g.Type+"."+g.Field] = g.Lock
		db.GuardExc[g.Type+"."+g.Field] = g.Except
	}
	for _, o := range sf.Opaques {
		db.Opaque[qualifyType(o, sf)] = true
	}
	db.NoEffect = append(db.NoEffect, sf.NoEffect...)
	for k, v := range sf.Delegates {
		db.Delegates[k] = v
	}
	db.Globals = append(db.Globals, sf.Globals...)
	return nil
}

// LoadSpecs reads /verif/spec/*.spec and the contracts_verif.go files of the repository.
func LoadSpecs(specDir, repoDir string) (*SpecDB, error) {
	db := NewSpecDB()
	files, _ := filepath.Glob(filepath.Join(specDir, "*.spec"))
	sort.Strings(files)
	for _, f := range files {
		sf, err := ParseSpecFile(f, "")
		if err != nil {
			return nil, err
		}
		if err := db.Add(sf); err != nil {
			return nil, err
		}
	}
	const mod = "github.com/ClickHouse/ch-go"
	for _, sub := range []string{"proto", "compress", ".", "chpool"} {
		cfs, _ := filepath.Glob(filepath.Join(repoDir, sub, "contracts*_verif.go"))
		sort.Strings(cfs)
		for _, f := range cfs {
			pkg := mod
			if sub != "." {
				pkg = mod + "/" + sub
			}
			sf, err := ParseSpecFile(f, pkg)
			if err != nil {
				return nil, err
			}
			if sf.Imports["io"] == "" {
				sf.Imports["io"] = "io"
			}
			if err := db.Add(sf); err != nil {
				return nil, err
			}
		}
	}
	return db, nil
}
