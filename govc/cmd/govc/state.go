package main

import (
	"fmt"
	"go/types"
	"math/big"
	"os"
	"runtime"
	"strings"

	"golang.org/x/tools/go/ssa"
)

// State is one symbolic path state.  Maps are copied at forks.
type State struct {
	inl []*ssa.Function // functions whose bodies are currently being inlined on this path
	vals   map[ssa.Value]Val
	heap   map[*Obj]Val
	facts  []*Term
	old    *State
	trace  []string
	defers []*deferRec
	stale  map[*Obj]string // array objects that must not be touched any more (append realloc model)
	events []string
	epoch  string // non-empty after a havoc-all: lazily materialised content gets fresh names
	viewImg map[string]*Term
	guards  []*loopGuard
	stops   []*stopRec            // pending join points (state merging)
	phiOverride map[*ssa.Phi]Val  // phi values of the join block of a merged state
}

// loopGuard: the objects a loop with an explicit modifies clause may write.
type loopGuard struct {
	maxID int
	ok    map[*Obj]bool
	li    *loopInfo
}

func (st *State) checkWrite(o *Obj) {
	for _, g := range st.guards {
		if o.ID <= g.maxID && !g.ok[o] {
			panic(abortf("loop body writes %s, which is outside the loop's modifies clause", o))
		}
	}
}

type deferRec struct {
	site ssa.Instruction // the defer statement
	call *ssa.CallCommon
	args []Val
	fnv  Val
}

func (st *State) clone() *State {
	n := &State{
		vals:   make(map[ssa.Value]Val, len(st.vals)+8),
		heap:   make(map[*Obj]Val, len(st.heap)+8),
		facts:  st.facts[:len(st.facts):len(st.facts)],
		old:    st.old,
		trace:  st.trace[:len(st.trace):len(st.trace)],
		defers: st.defers[:len(st.defers):len(st.defers)],
		epoch:  st.epoch,
		guards: st.guards,
		stops:  st.stops[:len(st.stops):len(st.stops)],
		inl:    st.inl[:len(st.inl):len(st.inl)],
	}
	for k, v := range st.vals {
		n.vals[k] = v
	}
	for k, v := range st.heap {
		n.heap[k] = v
	}
	if st.viewImg != nil {
		n.viewImg = map[string]*Term{}
		for k, v := range st.viewImg {
			n.viewImg[k] = v
		}
	}
	if st.stale != nil {
		n.stale = map[*Obj]string{}
		for k, v := range st.stale {
			n.stale[k] = v
		}
	}
	return n
}

func (st *State) assume(t *Term) {
	if t.IsTrue() {
		return
	}
	st.facts = append(st.facts, t)
}

func (st *State) note(s string) { st.trace = append(st.trace, s) }

// ---------------------------------------------------------------------------
// type helpers

func under(t types.Type) types.Type {
	return types.Unalias(t).Underlying()
}

func isTypeParam(t types.Type) bool {
	_, ok := types.Unalias(t).(*types.TypeParam)
	return ok
}

func basicInfo(t types.Type) (types.BasicInfo, types.BasicKind, bool) {
	b, ok := under(t).(*types.Basic)
	if !ok {
		return 0, 0, false
	}
	return b.Info(), b.Kind(), true
}

// intRange returns the inclusive range of an integer type (int = 64 bit).
func intRange(t types.Type) (lo, hi *big.Int, ok bool) {
	info, kind, isb := basicInfo(t)
	if !isb || info&types.IsInteger == 0 {
		return nil, nil, false
	}
	bits := uint(64)
	switch kind {
	case types.Int8, types.Uint8:
		bits = 8
	case types.Int16, types.Uint16:
		bits = 16
	case types.Int32, types.Uint32:
		bits = 32
	case types.UntypedInt, types.UntypedRune:
		return nil, nil, false
	}
	if info&types.IsUnsigned != 0 {
		return big.NewInt(0), new(big.Int).Sub(Pow2(bits), big.NewInt(1)), true
	}
	return new(big.Int).Neg(Pow2(bits - 1)), new(big.Int).Sub(Pow2(bits-1), big.NewInt(1)), true
}

func intBits(t types.Type) (bits uint, unsigned bool, ok bool) {
	info, kind, isb := basicInfo(t)
	if !isb || info&types.IsInteger == 0 {
		return 0, false, false
	}
	bits = 64
	switch kind {
	case types.Int8, types.Uint8:
		bits = 8
	case types.Int16, types.Uint16:
		bits = 16
	case types.Int32, types.Uint32:
		bits = 32
	}
	return bits, info&types.IsUnsigned != 0, true
}

func isFloat(t types.Type) bool {
	info, _, ok := basicInfo(t)
	return ok && info&types.IsFloat != 0
}

func isString(t types.Type) bool {
	info, _, ok := basicInfo(t)
	return ok && info&types.IsString != 0
}

func isBool(t types.Type) bool {
	info, _, ok := basicInfo(t)
	return ok && info&types.IsBoolean != 0
}

// scalarSort: sort of values represented as a single term.
func scalarSort(t types.Type) (Sort, bool) {
	if isTypeParam(t) {
		tp := types.Unalias(t).(*types.TypeParam)
		return Sort("U_" + tp.Obj().Name()), true
	}
	info, kind, ok := basicInfo(t)
	if !ok {
		return "", false
	}
	switch {
	case info&types.IsBoolean != 0:
		return SBool, true
	case info&types.IsInteger != 0, info&types.IsFloat != 0:
		return SInt, true
	case kind == types.UnsafePointer:
		return "", false
	}
	return "", false
}

func wrapTo(t *Term, bits uint, unsigned bool) *Term {
	m := IntB(Pow2(bits))
	if t.IsInt() {
		r := new(big.Int).Mod(t.I, m.I)
		if !unsigned && r.Cmp(Pow2(bits-1)) >= 0 {
			r.Sub(r, m.I)
		}
		return IntB(r)
	}
	if unsigned {
		return Mod(t, m)
	}
	half := IntB(Pow2(bits - 1))
	// ((t + 2^(n-1)) mod 2^n) - 2^(n-1)
	return Sub(Mod(Add(t, half), m), half)
}

// ---------------------------------------------------------------------------
// Exec: one verification run over a loaded program

type Exec struct {
	CurProp  string // id of the property being verified
	P        *Program
	DB       *SpecDB
	UFs      map[string]*UFSig
	AxiomTs  []*Term
	varFacts map[string]*Term // type/range facts of registered variables
	counter  int
	objCount int
	lazyObjs map[string]*Obj
	Obls     []*Obligation
	Covers   []*Cover
	Undecided []string
	Assumptions map[string]bool
	StickyUsed  map[string]bool
	curFn    *FnRun
	MaxPaths int
	Verbose  bool
	globals  map[*ssa.Global]*Obj
	constMaps map[*ssa.Global]*constMap
	constMapObjs map[*Obj]*MapObjV
}

func NewExec(p *Program, db *SpecDB) (*Exec, error) {
	ex := &Exec{P: p, DB: db, UFs: map[string]*UFSig{}, varFacts: map[string]*Term{}, lazyObjs: map[string]*Obj{},
		Assumptions: map[string]bool{}, StickyUsed: map[string]bool{}, MaxPaths: 4096, globals: map[*ssa.Global]*Obj{},
		constMaps: map[*ssa.Global]*constMap{}, constMapObjs: map[*Obj]*MapObjV{}}
	if err := ex.declareSpecFuncs(); err != nil {
		return nil, err
	}
	return ex, nil
}

func (ex *Exec) fresh(prefix string) string {
	ex.counter++
	return fmt.Sprintf("%s!%d", prefix, ex.counter)
}

func (ex *Exec) newObj(name string, t types.Type) *Obj {
	ex.objCount++
	return &Obj{ID: ex.objCount, Name: name, T: t}
}

// namedObj returns the object for a deterministic name (lazy materialisation of inputs).
func (ex *Exec) namedObj(name string, t types.Type) *Obj {
	if o, ok := ex.lazyObjs[name]; ok {
		return o
	}
	o := ex.newObj(name, t)
	ex.lazyObjs[name] = o
	return o
}

// newVar registers a variable with the range fact of its Go type.
func (ex *Exec) newVar(name string, s Sort, t types.Type) *Term {
	v := Var(name, s)
	if t != nil && s == SInt {
		if lo, hi, ok := intRange(t); ok {
			ex.varFacts[name] = And(Le(IntB(lo), v), Le(v, IntB(hi)))
		} else if isFloat(t) {
			bits := uint(64)
			if ex.sizeOf(t) == 4 {
				bits = 32
			}
			ex.varFacts[name] = And(Le(Int(0), v), Lt(v, IntB(Pow2(bits))))
		}
	}
	return v
}

func (ex *Exec) addVarFact(v *Term, f *Term) {
	if old, ok := ex.varFacts[v.Name]; ok {
		for _, c := range conjuncts(old) {
			if sameTerm(c, f) {
				return
			}
		}
		if sameTerm(old, f) {
			return
		}
		ex.varFacts[v.Name] = And(old, f)
	} else {
		ex.varFacts[v.Name] = f
	}
}

// freshVal builds an unconstrained symbolic value of type t.  Names are
// deterministic functions of `name`, so that re-materialising the same input
// in two states gives the same terms.
func (ex *Exec) freshVal(t types.Type, name string) Val {
	if s, ok := scalarSort(t); ok {
		return ex.newVar(name, s, t)
	}
	tk := TypeKey(t)
	switch u := under(t).(type) {
	case *types.Basic:
		if u.Info()&types.IsString != 0 {
			l := ex.newVar(name+".len", SInt, nil)
			ex.addVarFact(l, Le(Int(0), l))
			return &StrV{Arr: Var(name+".str", SArrII), Len: l}
		}
		return &OpaqueV{T: t, Name: name}
	case *types.Struct:
		sv := &StructV{T: t}
		if _, isPtr := types.Unalias(t).(*types.Pointer); !isPtr && ex.DB.Opaque[tk] {
			// opaque: ghost fields only
		} else {
			sv.F = make([]Val, u.NumFields())
			for i := 0; i < u.NumFields(); i++ {
				sv.F[i] = &LazyV{T: u.Field(i).Type(), Name: name + "." + u.Field(i).Name()}
			}
		}
		for _, g := range ex.DB.Ghosts[tk] {
			if sv.Ghost == nil {
				sv.Ghost = map[string]Val{}
			}
			srt, err := sortByName(g.Sort)
			if err != nil {
				panic(err)
			}
			sv.Ghost[g.Name] = Var(name+"."+g.Name, srt)
		}
		return sv
	case *types.Pointer:
		o := ex.namedObj(name+"^", u.Elem())
		return &PtrV{Nil: Var(name+".isnil", SBool), Obj: o, Elem: u.Elem()}
	case *types.Slice:
		o := ex.namedObj(name+".arr", types.NewSlice(u.Elem()))
		o.IsArr = true
		l := ex.newVar(name+".len", SInt, nil)
		c := ex.newVar(name+".cap", SInt, nil)
		nl := Var(name+".isnil", SBool)
		f := And(Le(Int(0), l), Le(l, c), Le(c, IntB(Pow2(47))), Implies(nl, Eq(c, Int(0))))
		ex.addVarFact(l, f)
		ex.addVarFact(c, f)
		return &SliceV{Nil: nl, Arr: o, Off: Int(0), Len: l, Cap: c, Elem: u.Elem()}
	case *types.Array:
		return &ArrayV{Elem: u.Elem(), N: u.Len(), Data: ex.freshArrData(u.Elem(), name)}
	case *types.Interface:
		o := ex.namedObj(name+".dyn", t)
		return &IfaceV{Nil: Var(name+".isnil", SBool), Obj: o, T: t}
	case *types.Signature:
		return &FuncV{Nil: Var(name+".isnil", SBool), Name: name}
	case *types.Map:
		o := ex.namedObj(name+".map", t)
		return &MapV{Nil: Var(name+".isnil", SBool), Obj: o, K: u.Key(), V: u.Elem()}
	case *types.Tuple:
		tv := &TupleV{}
		for i := 0; i < u.Len(); i++ {
			tv.E = append(tv.E, ex.freshVal(u.At(i).Type(), fmt.Sprintf("%s.%d", name, i)))
		}
		return tv
	}
	return &OpaqueV{T: t, Name: name}
}

func (ex *Exec) freshArrData(elem types.Type, name string) ArrData {
	if s, ok := scalarSort(elem); ok {
		a := Var(name+".elems", ArrSort(SInt, s))
		if lo, hi, ok := intRange(elem); ok {
			k := Var("k!r", SInt)
			ex.varFacts[a.Name] = Forall([]*Term{k}, And(Le(IntB(lo), Select(a, k)), Le(Select(a, k), IntB(hi))), Select(a, k))
		} else if isFloat(elem) {
			bits := uint(64)
			if ex.sizeOf(elem) == 4 {
				bits = 32
			}
			k := Var("k!r", SInt)
			ex.varFacts[a.Name] = Forall([]*Term{k}, And(Le(Int(0), Select(a, k)), Lt(Select(a, k), IntB(Pow2(bits)))), Select(a, k))
		}
		return a
	}
	switch u := under(elem).(type) {
	case *types.Struct:
		if !ex.DB.Opaque[TypeKey(elem)] {
			sa := &StructArr{T: elem}
			for i := 0; i < u.NumFields(); i++ {
				sa.F = append(sa.F, ex.freshArrData(u.Field(i).Type(), name+"."+u.Field(i).Name()))
			}
			return sa
		}
	case *types.Array:
		if s, ok := scalarSort(u.Elem()); ok {
			return &NestedArr{T: u, Data: Var(name+".elems", ArrSort(SInt, ArrSort(SInt, s)))}
		}
	}
	return &RefArr{Elem: elem, Base: name, Known: map[string]Val{}}
}

// zeroVal is Go's zero value of a type.
func (ex *Exec) zeroVal(t types.Type, name string) Val {
	if s, ok := scalarSort(t); ok {
		switch s {
		case SInt:
			return Int(0)
		case SBool:
			return tFalse
		default:
			return App("zero_"+string(s), s)
		}
	}
	switch u := under(t).(type) {
	case *types.Basic:
		if u.Info()&types.IsString != 0 {
			return &StrV{Arr: emptyBytes(), Len: Int(0)}
		}
		return &OpaqueV{T: t, Name: "zero"}
	case *types.Struct:
		sv := &StructV{T: t}
		if ex.DB.Opaque[TypeKey(t)] {
			for _, g := range ex.DB.Ghosts[TypeKey(t)] {
				if sv.Ghost == nil {
					sv.Ghost = map[string]Val{}
				}
				srt, _ := sortByName(g.Sort)
				zn := "zero_" + strings.NewReplacer("/", "_", ".", "_").Replace(TypeKey(t)) + "_" + g.Name
				ex.UFs[zn] = &UFSig{Name: zn, Ret: srt}
				sv.Ghost[g.Name] = App(zn, srt)
			}
			return sv
		}
		sv.F = make([]Val, u.NumFields())
		for i := range sv.F {
			sv.F[i] = ex.zeroVal(u.Field(i).Type(), name+"."+u.Field(i).Name())
		}
		for _, g := range ex.DB.Ghosts[TypeKey(t)] {
			if sv.Ghost == nil {
				sv.Ghost = map[string]Val{}
			}
			srt, _ := sortByName(g.Sort)
			switch srt {
			case SInt:
				sv.Ghost[g.Name] = Int(0)
			case SBool:
				sv.Ghost[g.Name] = tFalse
			default:
				sv.Ghost[g.Name] = Var(ex.fresh(name+"."+g.Name), srt)
			}
		}
		return sv
	case *types.Pointer:
		return &PtrV{Nil: tTrue, Elem: u.Elem()}
	case *types.Slice:
		return &SliceV{Nil: tTrue, Off: Int(0), Len: Int(0), Cap: Int(0), Elem: u.Elem()}
	case *types.Array:
		return &ArrayV{Elem: u.Elem(), N: u.Len(), Data: ex.zeroArrData(u.Elem(), name)}
	case *types.Interface:
		return &IfaceV{Nil: tTrue, T: t}
	case *types.Signature:
		return &FuncV{Nil: tTrue}
	case *types.Map:
		return &MapV{Nil: tTrue, K: u.Key(), V: u.Elem()}
	}
	return &OpaqueV{T: t, Name: "zero"}
}

func emptyBytes() *Term { return App("zeros_Int", SArrII) }

func (ex *Exec) zeroArrData(elem types.Type, name string) ArrData {
	if s, ok := scalarSort(elem); ok {
		ex.ensureZeros(s)
		return App("zeros_"+sortTag(s), ArrSort(SInt, s))
	}
	switch u := under(elem).(type) {
	case *types.Struct:
		sa := &StructArr{T: elem}
		for i := 0; i < u.NumFields(); i++ {
			sa.F = append(sa.F, ex.zeroArrData(u.Field(i).Type(), name+"."+u.Field(i).Name()))
		}
		return sa
	case *types.Array:
		if s, ok := scalarSort(u.Elem()); ok {
			ex.ensureZeros(s)
			n := "zeros2_" + sortTag(s)
			if _, ok := ex.UFs[n]; !ok {
				ex.UFs[n] = &UFSig{Name: n, Ret: ArrSort(SInt, ArrSort(SInt, s))}
				k := Var("k!z", SInt)
				ex.AxiomTs = append(ex.AxiomTs, Forall([]*Term{k}, Eq(Select(App(n, ArrSort(SInt, ArrSort(SInt, s))), k), App("zeros_"+sortTag(s), ArrSort(SInt, s)))))
			}
			return &NestedArr{T: u, Data: App(n, ArrSort(SInt, ArrSort(SInt, s)))}
		}
	}
	// zero-valued reference elements: reads give the zero value
	return &RefArr{Elem: elem, Base: "zero:" + name, Known: map[string]Val{}}
}

func sortTag(s Sort) string {
	r := strings.NewReplacer("(", "", ")", "", " ", "_").Replace(string(s))
	return r
}

func (ex *Exec) ensureZeros(s Sort) {
	n := "zeros_" + sortTag(s)
	if _, ok := ex.UFs[n]; ok {
		return
	}
	ex.UFs[n] = &UFSig{Name: n, Ret: ArrSort(SInt, s)}
	k := Var("k!z", SInt)
	var z *Term
	switch s {
	case SInt:
		z = Int(0)
	case SBool:
		z = tFalse
	default:
		zn := "zero_" + string(s)
		ex.UFs[zn] = &UFSig{Name: zn, Ret: s}
		z = App(zn, s)
	}
	arr := App(n, ArrSort(SInt, s))
	ex.AxiomTs = append(ex.AxiomTs, Forall([]*Term{k}, Eq(Select(arr, k), z), Select(arr, k)))
}

// ---------------------------------------------------------------------------
// heap access

func (ex *Exec) heapGet(st *State, o *Obj) Val {
	if v, ok := st.heap[o]; ok {
		return v
	}
	// lazily materialise deterministic initial content
	var v Val
	if st.epoch != "" {
		v = ex.materialise(o, o.Name+"@"+st.epoch)
		st.heap[o] = v
		if _, isPtrTarget := v.(*StructV); isPtrTarget {
			ex.assumeValid(st, &PtrV{Nil: tFalse, Obj: o, Elem: o.T}, types.NewPointer(o.T), 0)
		}
		return v
	}
	nm := o.Name
	for _, suf := range []string{".dyn", ".arr", "^"} {
		if suf == "^" {
			if _, isStruct := under(o.T).(*types.Struct); !isStruct {
				if _, isScalar := scalarSort(o.T); !isScalar {
					continue // cells holding references keep the marker: their referent gets its own name
				}
			}
		}
		nm = strings.TrimSuffix(nm, suf)
	}
	v = ex.materialise(o, nm)
	if pv, ok := v.(*PtrV); ok {
		st.heap[o] = v
		ex.assumeValid(st, pv, o.T, 1)
	}
	st.heap[o] = v
	return v
}

func (ex *Exec) force(st *State, v Val) Val {
	if lz, ok := v.(*LazyV); ok {
		nv := ex.freshVal(lz.T, lz.Name)
		ex.assumeValid(st, nv, lz.T, 0)
		return nv
	}
	return v
}

func (ex *Exec) materialise(o *Obj, name string) Val {
	if o.IsArr {
		el := o.T.(*types.Slice).Elem()
		return &ArrayV{Elem: el, N: -1, Data: ex.freshArrData(el, name)}
	}
	if _, isIface := under(o.T).(*types.Interface); isIface && strings.HasSuffix(o.Name, ".dyn") {
		return ex.ghostStruct(o.T, name)
	}
	return ex.freshVal(o.T, name)
}

// load reads the value at a pointer.
func (ex *Exec) load(st *State, p *PtrV) Val {
	if p.Obj == nil {
		panic(abortf("load through pointer without target"))
	}
	if why, ok := st.stale[p.Obj]; ok {
		panic(abortf("access to stale array %s (%s)", p.Obj, why))
	}
	root := ex.heapGet(st, p.Obj)
	v, changed, nroot := ex.loadPath(st, root, p.Path)
	if changed {
		st.heap[p.Obj] = nroot
	}
	return v
}

// loadPath walks the path; it returns the value and, when lazies were forced
// on the way, the updated root.
func (ex *Exec) loadPath(st *State, v Val, path []PathElem) (Val, bool, Val) {
	if lz, ok := v.(*LazyV); ok {
		nv := ex.force(st, lz)
		r, _, nr := ex.loadPath(st, nv, path)
		return r, true, nr
	}
	if len(path) == 0 {
		return v, false, v
	}
	pe := path[0]
	switch x := v.(type) {
	case *StructV:
		if pe.Idx != nil {
			panic(abortf("index into struct"))
		}
		sub, ch, nsub := ex.loadPath(st, x.F[pe.Field], path[1:])
		if ch {
			nx := &StructV{T: x.T, F: append([]Val(nil), x.F...), Ghost: x.Ghost}
			nx.F[pe.Field] = nsub
			return sub, true, nx
		}
		return sub, false, x
	case *ArrayV:
		el := ex.readElem(st, x.Data, x.Elem, pe.Idx)
		sub, _, _ := ex.loadPath(st, el, path[1:])
		return sub, false, x
	}
	panic(abortf("loadPath: cannot walk %T", v))
}

// store writes v at pointer p.
func (ex *Exec) store(st *State, p *PtrV, v Val) {
	if p.Obj == nil {
		panic(abortf("store through pointer without target"))
	}
	if why, ok := st.stale[p.Obj]; ok {
		panic(abortf("write to stale array %s (%s)", p.Obj, why))
	}
	st.checkWrite(p.Obj)
	if p.Obj.Merged {
		e := abortf("in-place write to %s, an array merged from two different backing arrays", p.Obj)
		e.mergedWrite = p.Obj
		panic(e)
	}
	var root Val
	if len(p.Path) > 0 {
		root = ex.heapGet(st, p.Obj)
	}
	st.heap[p.Obj] = ex.storePath(st, root, p.Path, v)
}

func (ex *Exec) storePath(st *State, root Val, path []PathElem, v Val) Val {
	if len(path) == 0 {
		return v
	}
	root = ex.force(st, root)
	pe := path[0]
	switch x := root.(type) {
	case *StructV:
		nx := &StructV{T: x.T, F: append([]Val(nil), x.F...), Ghost: x.Ghost}
		nx.F[pe.Field] = ex.storePath(st, x.F[pe.Field], path[1:], v)
		return nx
	case *ArrayV:
		var nv Val = v
		if len(path) > 1 {
			el := ex.readElem(st, x.Data, x.Elem, pe.Idx)
			nv = ex.storePath(st, el, path[1:], v)
		}
		return &ArrayV{Elem: x.Elem, N: x.N, Data: ex.writeElem(st, x.Data, x.Elem, pe.Idx, nv)}
	}
	panic(abortf("storePath: cannot walk %T", root))
}

func (ex *Exec) readElem(st *State, d ArrData, elem types.Type, idx *Term) Val {
	switch a := d.(type) {
	case *Term:
		return Select(a, idx)
	case *StructArr:
		sv := &StructV{T: a.T, F: make([]Val, len(a.F))}
		u := under(a.T).(*types.Struct)
		for i := range a.F {
			sv.F[i] = ex.readElem(st, a.F[i], u.Field(i).Type(), idx)
		}
		if len(ex.DB.Valids[TypeKey(a.T)]) > 0 {
			ex.assumeValid(st, sv, a.T, 0)
		}
		return sv
	case *NestedArr:
		return &ArrayV{Elem: a.T.Elem(), N: a.T.Len(), Data: Select(a.Data, idx)}
	case *RefArr:
		k := idx.String()
		if v, ok := a.Known[k]; ok {
			return v
		}
		if strings.HasPrefix(a.Base, "zero:") && !a.Dirty {
			return ex.zeroVal(a.Elem, a.Base[5:])
		}
		var v Val
		if a.Dirty {
			v = ex.freshVal(a.Elem, ex.fresh(a.Base+"[?]"))
		} else {
			v = ex.freshVal(a.Elem, a.Base+"["+k+"]")
		}
		ex.assumeValid(st, v, a.Elem, 0)
		a.Known[k] = v
		if a.ElemInv != nil && !a.Dirty {
			a.ElemInv(st, v)
		}
		if a.Idx == nil {
			a.Idx = map[string]*Term{}
		}
		a.Idx[k] = idx
		return v
	}
	panic(abortf("readElem: %T", d))
}

func (ex *Exec) writeElem(st *State, d ArrData, elem types.Type, idx *Term, v Val) ArrData {
	switch a := d.(type) {
	case *Term:
		t, ok := v.(*Term)
		if !ok {
			panic(abortf("writeElem: scalar expected, got %T", v))
		}
		return Store(a, idx, coerce(t, a.Sort.ElemSort()))
	case *StructArr:
		sv, ok := ex.force(st, v).(*StructV)
		if !ok {
			panic(abortf("writeElem: struct expected, got %T", v))
		}
		n := &StructArr{T: a.T, F: make([]ArrData, len(a.F))}
		u := under(a.T).(*types.Struct)
		for i := range a.F {
			n.F[i] = ex.writeElem(st, a.F[i], u.Field(i).Type(), idx, ex.force(st, sv.F[i]))
		}
		return n
	case *NestedArr:
		av, ok := v.(*ArrayV)
		if !ok {
			panic(abortf("writeElem: array expected, got %T", v))
		}
		return &NestedArr{T: a.T, Data: Store(a.Data, idx, av.Data.(*Term))}
	case *RefArr:
		n := cloneRefArr(a)
		keep := map[string]Val{}
		if idx.IsInt() {
			for k, kv := range n.Known {
				if isIntString(k) && k != idx.String() {
					keep[k] = kv
				}
			}
		}
		keep[idx.String()] = v
		n.Known = keep
		if n.Idx == nil {
			n.Idx = map[string]*Term{}
		}
		n.Idx[idx.String()] = idx
		n.Dirty = true
		n.ElemInv = nil
		refArrWrites++
		n.Ver = refArrWrites // unique per write: two different writes never look like the same contents
		return n
	}
	panic(abortf("writeElem: %T", d))
}

var refArrWrites int

func isIntString(s string) bool {
	if s == "" {
		return false
	}
	for i, c := range s {
		if c == '-' && i == 0 {
			continue
		}
		if c < '0' || c > '9' {
			return false
		}
	}
	return true
}

func coerce(t *Term, s Sort) *Term {
	if t.Sort == s {
		return t
	}
	if t.Sort == SBool && s == SInt {
		return Ite(t, Int(1), Int(0))
	}
	if t.Sort == SInt && s == SBool {
		return Not(Eq(t, Int(0)))
	}
	panic(abortf("cannot coerce %s to %s", t.Sort, s))
}

// ---------------------------------------------------------------------------
// aborts (tool limits: never a pass)

type abortErr struct {
	msg         string
	mergedWrite *Obj // in-place write to this merged array object (the merge is then undone)
}

func (a *abortErr) Error() string { return a.msg }

func abortf(format string, args ...interface{}) *abortErr {
	msg := fmt.Sprintf(format, args...)
	if os.Getenv("GOVC_TRACE") != "" {
		buf := make([]byte, 1<<14)
		n := runtime.Stack(buf, false)
		var fr []string
		for _, l := range strings.Split(string(buf[:n]), "\n") {
			if strings.Contains(l, "/govc/cmd/govc/") {
				fr = append(fr, strings.TrimSpace(l[strings.LastIndex(l, "/")+1:]))
			}
		}
		if len(fr) > 8 {
			fr = fr[:8]
		}
		msg += " @ " + strings.Join(fr, " <- ")
	}
	return &abortErr{msg: msg}
}

// pathStop ends the current path silently (infeasible, panic already reported, ...).
type pathStop struct{}
