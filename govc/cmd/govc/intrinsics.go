package main

// Intrinsics: encoding/binary byte-order accessors are modelled directly as
// byte images (bytej_W / unle_W, see DESIGN 2.6) instead of through contracts
// with quantified frames.  Listed as an assumption in every evidence file
// that uses them.

import (
	"fmt"
	"strings"

	"golang.org/x/tools/go/ssa"
)

// byteFn declares byteW(v, j) and unleW(b0..b_{n-1}) with their axioms.
func (ex *Exec) byteFns(bits int) (string, string) {
	n := bits / 8
	bn := fmt.Sprintf("byte%d", bits)
	un := fmt.Sprintf("unle%d", bits)
	if _, ok := ex.UFs[bn]; ok {
		return bn, un
	}
	ex.UFs[bn] = &UFSig{Name: bn, Args: []Sort{SInt, SInt}, Ret: SInt}
	var as []Sort
	for i := 0; i < n; i++ {
		as = append(as, SInt)
	}
	ex.UFs[un] = &UFSig{Name: un, Args: as, Ret: SInt}
	v := Var("v!b", SInt)
	j := Var("j!b", SInt)
	max := IntB(Pow2(uint(bits)))
	// range of bytes
	ex.AxiomTs = append(ex.AxiomTs, Forall([]*Term{v, j}, And(Le(Int(0), App(bn, SInt, v, j)), Lt(App(bn, SInt, v, j), Int(256))), App(bn, SInt, v, j)))
	// unle(byte(v,0..n-1)) == v for v in range
	var bs []*Term
	for i := 0; i < n; i++ {
		bs = append(bs, App(bn, SInt, v, Int(int64(i))))
	}
	ex.AxiomTs = append(ex.AxiomTs, Forall([]*Term{v}, Implies(And(Le(Int(0), v), Lt(v, max)), Eq(App(un, SInt, bs...), v)), App(bn, SInt, v, Int(0))))
	// byte(unle(b...), i) == b_i and range of unle
	var vs []*Term
	var inr []*Term
	for i := 0; i < n; i++ {
		b := Var(fmt.Sprintf("b%d!b", i), SInt)
		vs = append(vs, b)
		inr = append(inr, Le(Int(0), b), Lt(b, Int(256)))
	}
	u := App(un, SInt, vs...)
	var eqs []*Term
	for i := 0; i < n; i++ {
		eqs = append(eqs, Eq(App(bn, SInt, u, Int(int64(i))), vs[i]))
	}
	eqs = append(eqs, Le(Int(0), u), Lt(u, max))
	ex.AxiomTs = append(ex.AxiomTs, Forall(vs, Implies(And(inr...), And(eqs...)), u))
	return bn, un
}

func (fr *FnRun) intrinsic(st *State, site ssa.Instruction, key string, args []Val, k callK) bool {
	ex := fr.ex
	const pfx = "encoding/binary.("
	if !strings.HasPrefix(key, pfx) {
		return false
	}
	rest := key[len(pfx):]
	big := strings.HasPrefix(rest, "bigEndian)")
	if !big && !strings.HasPrefix(rest, "littleEndian)") {
		return false
	}
	name := rest[strings.Index(rest, ").")+2:]
	var bits int
	put := false
	switch name {
	case "Uint16", "Uint32", "Uint64":
		fmt.Sscanf(name[4:], "%d", &bits)
	case "PutUint16", "PutUint32", "PutUint64":
		fmt.Sscanf(name[7:], "%d", &bits)
		put = true
	default:
		return false
	}
	n := bits / 8
	ex.Assumptions["encoding/binary byte-order accessors are modelled as little/big-endian byte images (byteW/unleW with inverse axioms)"] = true
	s, ok := ex.force(st, args[1]).(*SliceV)
	if !ok {
		panic(abortf("binary.%s on %T", name, args[1]))
	}
	inb := Le(Int(int64(n)), s.Len)
	fr.oblige(st, "bounds", fr.ordOf(site)+":"+name, inb, nil, "binary."+name+": slice has at least "+fmt.Sprint(n)+" bytes")
	st.assume(inb)
	bn, un := ex.byteFns(bits)
	pos := func(i int) *Term {
		if big {
			return Add(s.Off, Int(int64(n-1-i)))
		}
		return Add(s.Off, Int(int64(i)))
	}
	if s.ViewW > 0 {
		panic(abortf("binary.%s on a byte view", name))
	}
	data, ok := fr.sliceData(st, s).(*Term)
	if !ok {
		panic(abortf("binary.%s on non-byte slice", name))
	}
	if put {
		v := ex.force(st, args[2]).(*Term)
		for i := 0; i < n; i++ {
			data = Store(data, pos(i), App(bn, SInt, v, Int(int64(i))))
		}
		fr.setSliceData(st, s, data)
		k(st, &TupleV{})
		return true
	}
	var bs []*Term
	for i := 0; i < n; i++ {
		bs = append(bs, Select(data, pos(i)))
	}
	k(st, App(un, SInt, bs...))
	return true
}
