package main

// Replay files.  Every violation gets a replay file naming the failed
// obligation, the clause, the path, the solver answers and the model.  For
// scalar functions (R1 in DESIGN.md Appendix F) the model is turned into a Go
// test injected with `go test -overlay`, the real function is run on the
// model's inputs, and the failed clause is re-evaluated on the concrete
// inputs and the real outputs.

import (
	"bytes"
	"encoding/json"
	"fmt"
	"go/types"
	"math/big"
	"os"
	"os/exec"
	"path/filepath"
	"strings"

	"golang.org/x/tools/go/ssa"
)

// parseModel extracts 0-ary Int/Bool definitions from a (get-model) answer.
func parseModel(m string) map[string]string {
	out := map[string]string{}
	toks := sexpTokens(m)
	// scan for: ( define-fun NAME ( ) SORT VALUE )
	for i := 0; i+6 < len(toks); i++ {
		if toks[i] != "(" || toks[i+1] != "define-fun" {
			continue
		}
		name := strings.Trim(toks[i+2], "|")
		if toks[i+3] != "(" || toks[i+4] != ")" {
			continue
		}
		sort := toks[i+5]
		if sort != "Int" && sort != "Bool" {
			continue
		}
		j := i + 6
		switch {
		case toks[j] == "(" && j+3 < len(toks) && toks[j+1] == "-" && toks[j+3] == ")":
			out[name] = "-" + toks[j+2]
		case toks[j] != "(":
			out[name] = toks[j]
		}
	}
	return out
}

func sexpTokens(s string) []string {
	var out []string
	i := 0
	for i < len(s) {
		c := s[i]
		switch {
		case c == '(' || c == ')':
			out = append(out, string(c))
			i++
		case c == ' ' || c == '\n' || c == '\t' || c == '\r':
			i++
		case c == '|':
			j := i + 1
			for j < len(s) && s[j] != '|' {
				j++
			}
			out = append(out, s[i:min(j+1, len(s))])
			i = j + 1
		case c == ';':
			for i < len(s) && s[i] != '\n' {
				i++
			}
		default:
			j := i
			for j < len(s) && !strings.ContainsRune("() \n\t\r", rune(s[j])) {
				j++
			}
			out = append(out, s[i:j])
			i = j
		}
	}
	return out
}

func safeName(s string) string {
	r := strings.NewReplacer("/", "_", "#", "_", ":", "_", "(", "", ")", "", "*", "p", "$", "_", "@", "_", ",", "_", "=", "_")
	return r.Replace(s)
}

func writeReplay(dir string, pf PropFile, g *oblGroup, repo, verif, dump string) string {
	os.MkdirAll(dir, 0o755)
	base := filepath.Join(dir, safeName(g.Name))
	path := base + ".replay.json"
	o := g.Failed[0]
	for _, f := range g.Failed {
		if f.Res.Answer == "sat" {
			o = f
			break
		}
	}
	rec := map[string]interface{}{
		"property":   pf.ID,
		"obligation": g.Name,
		"function":   ShortKey(o.Func),
		"kind":       o.Kind,
		"clause":     o.Clause,
		"clause_at":  fmt.Sprintf("%s:%d", o.File, o.Line),
		"path":       o.Path,
		"instances":  len(g.Instances),
		"failed":     len(g.Failed),
		"answer":     o.Res.Answer,
		"solvers":    o.Res.Raw,
		"goal":       o.Goal.String(),
	}
	outcome := "no-failing-input-found"
	if o.Res.Answer == "sat" {
		model := parseModel(o.Res.Model)
		rec["model"] = model
		rec["model_raw"] = truncate(o.Res.Model, 20000)
		if pf.Replay == "scalar" {
			res, detail := replayScalar(o, model, repo, base)
			rec["replay"] = detail
			outcome = res
		} else {
			rec["replay"] = "no automatic replay for this obligation family; the model above names the inputs"
		}
	} else {
		rec["solver_output"] = "no model: every solver answered " + fmt.Sprint(o.Res.Raw)
	}
	rec["outcome"] = outcome
	smt := base + ".smt2"
	os.WriteFile(smt, []byte(o.Script), 0o644)
	rec["smt_file"] = smt
	b, _ := json.MarshalIndent(rec, "", " ")
	os.WriteFile(path, b, 0o644)
	if outcome == "confirmed" {
		return path + ".confirmed"
	}
	return path
}

// replayCtx is set by verify so that replays can use the loaded program.
var replayProg *Program
var replayDB *SpecDB

// replayScalar runs the real function on the model's inputs.
func replayScalar(o *Obligation, model map[string]string, repo, base string) (string, string) {
	if replayProg == nil {
		return "no-failing-input-found", "program not available for replay"
	}
	fn := replayProg.Funcs[o.Func]
	if fn == nil {
		return "no-failing-input-found", "function not found"
	}
	ctr := replayDB.Contracts[o.Func]
	fr := &FnRun{fn: fn, key: o.Func, ctr: ctr}
	names := fr.paramNames()
	var args []string
	var imports = map[string]bool{"fmt": true, "testing": true}
	for i, p := range fn.Params {
		lit, ok := goLiteral(p.Type(), names[i], model, imports, fn.Pkg.Pkg)
		if !ok {
			return "no-failing-input-found", "parameter " + names[i] + " of type " + p.Type().String() + " cannot be built from the model"
		}
		args = append(args, lit)
	}
	call := ""
	if fn.Signature.Recv() != nil {
		call = "(" + args[0] + ")." + fn.Name() + "(" + strings.Join(args[1:], ", ") + ")"
	} else {
		call = fn.Name() + "(" + strings.Join(args, ", ") + ")"
	}
	var sb strings.Builder
	sb.WriteString("package " + fn.Pkg.Pkg.Name() + "\n\nimport (\n")
	for im := range imports {
		sb.WriteString("\t\"" + im + "\"\n")
	}
	sb.WriteString(")\n\nfunc TestVerifReplay(t *testing.T) {\n")
	sb.WriteString("\tdefer func() { if r := recover(); r != nil { fmt.Printf(\"REPLAY-PANIC %v\\n\", r) } }()\n")
	rs := fn.Signature.Results()
	switch rs.Len() {
	case 0:
		sb.WriteString("\t" + call + "\n")
	default:
		var lhs []string
		for i := 0; i < rs.Len(); i++ {
			lhs = append(lhs, fmt.Sprintf("r%d", i))
		}
		sb.WriteString("\t" + strings.Join(lhs, ", ") + " := " + call + "\n")
		for i := 0; i < rs.Len(); i++ {
			sb.WriteString(printResult(rs.At(i).Type(), fmt.Sprintf("r%d", i), fmt.Sprintf("r%d", i), imports))
		}
	}
	sb.WriteString("}\n")
	// imports may have grown while printing results: rebuild header
	src := sb.String()
	hdr := "package " + fn.Pkg.Pkg.Name() + "\n\nimport (\n"
	for im := range imports {
		hdr += "\t\"" + im + "\"\n"
	}
	hdr += ")\n"
	src = hdr + src[strings.Index(src, "\nfunc TestVerifReplay"):]
	pkgDir := filepath.Join(repo, strings.TrimPrefix(strings.TrimPrefix(fn.Pkg.Pkg.Path(), repoModule), "/"))
	testFile := filepath.Join(pkgDir, "zz_verif_replay_test.go")
	srcFile := base + ".replay_test.go"
	os.WriteFile(srcFile, []byte(src), 0o644)
	ov := map[string]interface{}{"Replace": map[string]string{testFile: srcFile}}
	ovb, _ := json.Marshal(ov)
	ovFile := base + ".overlay.json"
	os.WriteFile(ovFile, ovb, 0o644)
	tags := "verif"
	if replayProg.Tags != "" {
		tags = replayProg.Tags
	}
	cmd := exec.Command("go", "test", "-overlay", ovFile, "-tags", tags, "-v", "-vet=off", "-count=1", "-timeout", "60s", "-run", "^TestVerifReplay$", ".")
	cmd.Dir = pkgDir
	cmd.Env = append(os.Environ(), "GOFLAGS=-mod=mod", "GOPROXY=off", "GOSUMDB=off", "GOTOOLCHAIN=local")
	var out bytes.Buffer
	cmd.Stdout = &out
	cmd.Stderr = &out
	_ = cmd.Run()
	got := map[string]string{}
	panicked := ""
	for _, ln := range strings.Split(out.String(), "\n") {
		if strings.HasPrefix(ln, "REPLAY-OUT ") {
			f := strings.SplitN(strings.TrimPrefix(ln, "REPLAY-OUT "), "=", 2)
			if len(f) == 2 {
				got[f[0]] = f[1]
			}
		}
		if strings.HasPrefix(ln, "REPLAY-PANIC ") {
			panicked = ln
		}
	}
	detail := fmt.Sprintf("call: %s\ninputs(model): %v\noutputs(real run): %v\n", call, pickInputs(model, names), got)
	if panicked != "" {
		return "confirmed", detail + "the real code panicked: " + panicked
	}
	if len(got) == 0 && rs.Len() > 0 {
		return "no-failing-input-found", detail + "the replay test did not produce output:\n" + truncate(out.String(), 2000)
	}
	// re-evaluate the clause on concrete inputs + real outputs
	if o.Kind != "post" {
		return "no-failing-input-found", detail + "obligation kind " + o.Kind + " is not re-evaluated on concrete values; see the model"
	}
	holds, err := evalClauseConcrete(o, fn, ctr, names, model, got)
	if err != nil {
		return "no-failing-input-found", detail + "clause could not be evaluated concretely: " + err.Error()
	}
	if !holds {
		return "confirmed", detail + "the clause `" + o.Clause + "` is FALSE on the real code's output for this input"
	}
	return "not-reproduced", detail + "the clause holds on the real code for the model's input (the model exploits an abstraction; the contract needs strengthening)"
}

func pickInputs(model map[string]string, names []string) map[string]string {
	out := map[string]string{}
	for k, v := range model {
		for _, n := range names {
			if k == n || strings.HasPrefix(k, n+".") {
				out[k] = v
			}
		}
	}
	return out
}

func modelInt(model map[string]string, name string) string {
	if v, ok := model[name]; ok {
		return v
	}
	return "0"
}

// goLiteral builds a Go expression of type t from the model values named name.*.
func goLiteral(t types.Type, name string, model map[string]string, imports map[string]bool, pkg *types.Package) (string, bool) {
	tn := types.TypeString(t, func(p *types.Package) string {
		if p == pkg {
			return ""
		}
		imports[p.Path()] = true
		return p.Name()
	})
	if TypeKey(t) == "time.Time" {
		imports["time"] = true
		return fmt.Sprintf("time.Unix(%s, %s).In(time.FixedZone(\"replay\", %s))", modelInt(model, name+".sec"), modelInt(model, name+".nsec"), modelInt(model, name+".off")), true
	}
	switch u := under(t).(type) {
	case *types.Basic:
		switch {
		case u.Info()&types.IsInteger != 0:
			return fmt.Sprintf("%s(%s)", tn, modelInt(model, name)), true
		case u.Info()&types.IsBoolean != 0:
			v := model[name]
			if v == "" {
				v = "false"
			}
			return fmt.Sprintf("%s(%s)", tn, v), true
		}
	case *types.Struct:
		var fs []string
		for i := 0; i < u.NumFields(); i++ {
			l, ok := goLiteral(u.Field(i).Type(), name+"."+u.Field(i).Name(), model, imports, pkg)
			if !ok {
				return "", false
			}
			fs = append(fs, u.Field(i).Name()+": "+l)
		}
		return tn + "{" + strings.Join(fs, ", ") + "}", true
	}
	return "", false
}

// printResult emits code printing the result's scalar leaves as REPLAY-OUT name=value.
func printResult(t types.Type, expr, name string, imports map[string]bool) string {
	if TypeKey(t) == "time.Time" {
		return fmt.Sprintf("\t{ _, off := %s.Zone(); fmt.Printf(\"REPLAY-OUT %s.sec=%%d\\nREPLAY-OUT %s.nsec=%%d\\nREPLAY-OUT %s.off=%%d\\n\", %s.Unix(), %s.Nanosecond(), off) }\n", expr, name, name, name, expr, expr)
	}
	switch u := under(t).(type) {
	case *types.Basic:
		if u.Info()&types.IsInteger != 0 {
			return fmt.Sprintf("\tfmt.Printf(\"REPLAY-OUT %s=%%d\\n\", %s)\n", name, expr)
		}
		if u.Info()&types.IsBoolean != 0 {
			return fmt.Sprintf("\tfmt.Printf(\"REPLAY-OUT %s=%%v\\n\", %s)\n", name, expr)
		}
	case *types.Struct:
		s := ""
		for i := 0; i < u.NumFields(); i++ {
			if !u.Field(i).Exported() {
				continue
			}
			s += printResult(u.Field(i).Type(), expr+"."+u.Field(i).Name(), name+"."+u.Field(i).Name(), imports)
		}
		return s
	}
	return fmt.Sprintf("\t_ = %s\n", expr)
}

// concreteVal builds a Val of type t from scalar leaves in vals (name.* keys).
func concreteVal(ex *Exec, t types.Type, name string, vals map[string]string) Val {
	tk := TypeKey(t)
	if ex.DB.Opaque[tk] {
		sv := &StructV{T: t, Ghost: map[string]Val{}}
		for _, g := range ex.DB.Ghosts[tk] {
			sv.Ghost[g.Name] = concreteScalar(vals[name+"."+g.Name], g.Sort == "Bool")
		}
		return sv
	}
	switch u := under(t).(type) {
	case *types.Basic:
		return concreteScalar(vals[name], u.Info()&types.IsBoolean != 0)
	case *types.Struct:
		sv := &StructV{T: t, F: make([]Val, u.NumFields())}
		for i := 0; i < u.NumFields(); i++ {
			sv.F[i] = concreteVal(ex, u.Field(i).Type(), name+"."+u.Field(i).Name(), vals)
		}
		return sv
	}
	return &OpaqueV{T: t, Name: name}
}

func concreteScalar(s string, isBool bool) *Term {
	if isBool {
		return Bool(s == "true")
	}
	if s == "" {
		s = "0"
	}
	bi, ok := new(big.Int).SetString(s, 10)
	if !ok {
		bi = big.NewInt(0)
	}
	return IntB(bi)
}

func evalClauseConcrete(o *Obligation, fn *ssa.Function, ctr *Contract, names []string, model, got map[string]string) (holds bool, err error) {
	ex, e := NewExec(replayProg, replayDB)
	if e != nil {
		return false, e
	}
	fr := &FnRun{ex: ex, fn: fn, key: o.Func, ctr: ctr}
	ex.curFn = fr
	defer func() {
		if r := recover(); r != nil {
			if a, ok := r.(*abortErr); ok {
				err = fmt.Errorf("%s", a.msg)
				return
			}
			panic(r)
		}
	}()
	vars := map[string]Val{}
	for i, p := range fn.Params {
		vars[names[i]] = concreteVal(ex, p.Type(), names[i], model)
	}
	rs := fn.Signature.Results()
	for i := 0; i < rs.Len(); i++ {
		v := concreteVal(ex, rs.At(i).Type(), fmt.Sprintf("r%d", i), got)
		if ctr != nil && i < len(ctr.Results) {
			vars[ctr.Results[i]] = v
		}
		if rs.Len() == 1 {
			vars["result"] = v
		}
	}
	// find the clause by source text
	var clause *Clause
	if ctr != nil {
		var all []*Clause
		all = append(all, ctr.Ensures...)
		for _, cs := range ctr.Cases {
			all = append(all, cs.Ensures...)
		}
		for _, en := range all {
			if en.Src == o.Clause {
				clause = en
			}
		}
	}
	if clause == nil {
		return false, fmt.Errorf("clause not found")
	}
	st := &State{vals: nil, heap: map[*Obj]Val{}}
	t := fr.evalBool(clause.E, &Env{st: st, old: st, vars: vars, fr: fr})
	if t.IsTrue() {
		return true, nil
	}
	if t.IsFalse() {
		return false, nil
	}
	// not fully concrete (uninterpreted symbols): ask the solver with definitions
	script := Script(nil, t, ex.UFs, ex.AxiomTs)
	sv := NewSolver(os.TempDir(), 10, 0)
	r := sv.Solve(script)
	switch r.Answer {
	case "unsat":
		return true, nil
	case "sat":
		return false, nil
	}
	return false, fmt.Errorf("clause did not reduce to a constant: %s", truncate(t.String(), 300))
}
