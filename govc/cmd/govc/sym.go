package main

// Term language and SMT-LIB printer.
//
// Machine integers are mathematical integers (sort Int) with Go's machine
// semantics made explicit by the executor; bytes are integers in [0,256).

import (
	"fmt"
	"math/big"
	"sort"
	"strings"
)

type Sort string

const (
	SInt  Sort = "Int"
	SBool Sort = "Bool"
)

func ArrSort(idx, elem Sort) Sort { return Sort("(Array " + string(idx) + " " + string(elem) + ")") }

var SArrII = ArrSort(SInt, SInt)
var SArrIB = ArrSort(SInt, SBool)

func (s Sort) IsArr() bool { return strings.HasPrefix(string(s), "(Array ") }

// ElemSort returns the element sort of an array sort.
func (s Sort) ElemSort() Sort {
	if !s.IsArr() {
		panic("ElemSort of non-array sort " + string(s))
	}
	body := string(s)[len("(Array ") : len(s)-1]
	// index sort is the first s-expression
	depth := 0
	for i, c := range body {
		switch c {
		case '(':
			depth++
		case ')':
			depth--
		case ' ':
			if depth == 0 {
				return Sort(body[i+1:])
			}
		}
	}
	panic("bad array sort " + string(s))
}

func (s Sort) IdxSort() Sort {
	body := string(s)[len("(Array ") : len(s)-1]
	depth := 0
	for i, c := range body {
		switch c {
		case '(':
			depth++
		case ')':
			depth--
		case ' ':
			if depth == 0 {
				return Sort(body[:i])
			}
		}
	}
	panic("bad array sort " + string(s))
}

type Term struct {
	Op    string // int bool var + - * div mod ite = < <= and or not => select store app forall exists
	Args  []*Term
	Sort  Sort
	Name  string   // var / app
	I     *big.Int // int
	B     bool     // bool
	Bound []*Term  // forall/exists
	Pats  []*Term  // optional patterns: one multi-pattern, or alternatives when AltPats
	AltPats bool
	key   string
}

func (t *Term) String() string {
	if t.key == "" {
		t.key = t.smt()
	}
	return t.key
}

func smtInt(i *big.Int) string {
	if i.Sign() < 0 {
		return "(- " + new(big.Int).Neg(i).String() + ")"
	}
	return i.String()
}

func smtName(n string) string {
	ok := true
	for _, c := range n {
		if !(c >= 'a' && c <= 'z' || c >= 'A' && c <= 'Z' || c >= '0' && c <= '9' || c == '_' || c == '.' || c == '!' || c == '$' || c == '@' || c == '#') {
			ok = false
		}
	}
	if ok && n != "" && !(n[0] >= '0' && n[0] <= '9') {
		return n
	}
	return "|" + strings.ReplaceAll(n, "|", "!") + "|"
}

func (t *Term) smt() string {
	switch t.Op {
	case "int":
		return smtInt(t.I)
	case "bool":
		if t.B {
			return "true"
		}
		return "false"
	case "var":
		return smtName(t.Name)
	case "app":
		if len(t.Args) == 0 {
			return smtName(t.Name)
		}
		var sb strings.Builder
		sb.WriteString("(" + smtName(t.Name))
		for _, a := range t.Args {
			sb.WriteString(" " + a.String())
		}
		sb.WriteString(")")
		return sb.String()
	case "forall", "exists":
		var sb strings.Builder
		sb.WriteString("(" + t.Op + " (")
		for _, b := range t.Bound {
			sb.WriteString("(" + smtName(b.Name) + " " + string(b.Sort) + ")")
		}
		sb.WriteString(") ")
		// z3 rejects patterns that contain an if-then-else; such patterns are dropped (the solver
		// then infers its own)
		pats := t.Pats[:0:0]
		for _, p := range t.Pats {
			if !hasOp(p, "ite") {
				pats = append(pats, p)
			}
		}
		t = &Term{Op: t.Op, Bound: t.Bound, Args: t.Args, Pats: pats, AltPats: t.AltPats, Sort: t.Sort}
		if len(t.Pats) > 0 && t.AltPats {
			sb.WriteString("(! " + t.Args[0].String())
			for _, p := range t.Pats {
				sb.WriteString(" :pattern (" + p.String() + ")")
			}
			sb.WriteString("))")
		} else if len(t.Pats) > 0 {
			sb.WriteString("(! " + t.Args[0].String() + " :pattern (")
			for i, p := range t.Pats {
				if i > 0 {
					sb.WriteString(" ")
				}
				sb.WriteString(p.String())
			}
			sb.WriteString(")))")
		} else {
			sb.WriteString(t.Args[0].String() + ")")
		}
		return sb.String()
	default:
		var sb strings.Builder
		sb.WriteString("(" + t.Op)
		for _, a := range t.Args {
			sb.WriteString(" " + a.String())
		}
		sb.WriteString(")")
		return sb.String()
	}
}

func (t *Term) IsInt() bool   { return t.Op == "int" }
func (t *Term) IsTrue() bool  { return t.Op == "bool" && t.B }
func (t *Term) IsFalse() bool { return t.Op == "bool" && !t.B }

var (
	tTrue  = &Term{Op: "bool", B: true, Sort: SBool}
	tFalse = &Term{Op: "bool", B: false, Sort: SBool}
)

func Int(i int64) *Term       { return &Term{Op: "int", I: big.NewInt(i), Sort: SInt} }
func IntB(i *big.Int) *Term   { return &Term{Op: "int", I: new(big.Int).Set(i), Sort: SInt} }
func Bool(b bool) *Term {
	if b {
		return tTrue
	}
	return tFalse
}
func Var(name string, s Sort) *Term { return &Term{Op: "var", Name: name, Sort: s} }

func Pow2(n uint) *big.Int { return new(big.Int).Lsh(big.NewInt(1), n) }

func sameTerm(a, b *Term) bool { return a == b || a.String() == b.String() }

func mk(op string, s Sort, args ...*Term) *Term { return &Term{Op: op, Sort: s, Args: args} }

func Add(a, b *Term) *Term {
	if a.IsInt() && b.IsInt() {
		return IntB(new(big.Int).Add(a.I, b.I))
	}
	if a.IsInt() && a.I.Sign() == 0 {
		return b
	}
	if b.IsInt() && b.I.Sign() == 0 {
		return a
	}
	// (x + c1) + c2
	if b.IsInt() && a.Op == "+" && len(a.Args) == 2 && a.Args[1].IsInt() {
		return Add(a.Args[0], IntB(new(big.Int).Add(a.Args[1].I, b.I)))
	}
	if a.IsInt() {
		return Add(b, a)
	}
	return mk("+", SInt, a, b)
}

func Neg(a *Term) *Term {
	if a.IsInt() {
		return IntB(new(big.Int).Neg(a.I))
	}
	return mk("-", SInt, a)
}

func Sub(a, b *Term) *Term {
	if a.IsInt() && b.IsInt() {
		return IntB(new(big.Int).Sub(a.I, b.I))
	}
	if b.IsInt() {
		if b.I.Sign() == 0 {
			return a
		}
		return Add(a, IntB(new(big.Int).Neg(b.I)))
	}
	if sameTerm(a, b) {
		return Int(0)
	}
	// (x + c) - x
	if a.Op == "+" && len(a.Args) == 2 && sameTerm(a.Args[0], b) {
		return a.Args[1]
	}
	return mk("-", SInt, a, b)
}

func Mul(a, b *Term) *Term {
	if a.IsInt() && b.IsInt() {
		return IntB(new(big.Int).Mul(a.I, b.I))
	}
	if a.IsInt() && !b.IsInt() {
		a, b = b, a
	}
	if b.IsInt() {
		if b.I.Sign() == 0 {
			return Int(0)
		}
		if b.I.Cmp(big.NewInt(1)) == 0 {
			return a
		}
	}
	return mk("*", SInt, a, b)
}

// Div is SMT-LIB div (floor for positive divisors, rounds so that the
// remainder is non-negative).
func Div(a, b *Term) *Term {
	if a.IsInt() && b.IsInt() && b.I.Sign() != 0 {
		q, m := new(big.Int), new(big.Int)
		q.DivMod(a.I, b.I, m) // Euclidean: matches SMT-LIB
		return IntB(q)
	}
	if b.IsInt() && b.I.Cmp(big.NewInt(1)) == 0 {
		return a
	}
	return mk("div", SInt, a, b)
}

func Mod(a, b *Term) *Term {
	if a.IsInt() && b.IsInt() && b.I.Sign() != 0 {
		q, m := new(big.Int), new(big.Int)
		q.DivMod(a.I, b.I, m)
		return IntB(m)
	}
	return mk("mod", SInt, a, b)
}

func Not(a *Term) *Term {
	if a.Op == "bool" {
		return Bool(!a.B)
	}
	if a.Op == "not" {
		return a.Args[0]
	}
	return mk("not", SBool, a)
}

func And(as ...*Term) *Term {
	var out []*Term
	for _, a := range as {
		if a.IsTrue() {
			continue
		}
		if a.IsFalse() {
			return tFalse
		}
		if a.Op == "and" {
			out = append(out, a.Args...)
			continue
		}
		out = append(out, a)
	}
	switch len(out) {
	case 0:
		return tTrue
	case 1:
		return out[0]
	}
	return mk("and", SBool, out...)
}

func Or(as ...*Term) *Term {
	var out []*Term
	for _, a := range as {
		if a.IsFalse() {
			continue
		}
		if a.IsTrue() {
			return tTrue
		}
		if a.Op == "or" {
			out = append(out, a.Args...)
			continue
		}
		out = append(out, a)
	}
	switch len(out) {
	case 0:
		return tFalse
	case 1:
		return out[0]
	}
	return mk("or", SBool, out...)
}

func Implies(a, b *Term) *Term {
	if a.IsTrue() {
		return b
	}
	if a.IsFalse() || b.IsTrue() {
		return tTrue
	}
	if b.IsFalse() {
		return Not(a)
	}
	return mk("=>", SBool, a, b)
}

func Eq(a, b *Term) *Term {
	if a.Sort != b.Sort {
		panic(fmt.Sprintf("Eq: sort mismatch %s:%s vs %s:%s", a, a.Sort, b, b.Sort))
	}
	if a.IsInt() && b.IsInt() {
		return Bool(a.I.Cmp(b.I) == 0)
	}
	if a.Op == "bool" && b.Op == "bool" {
		return Bool(a.B == b.B)
	}
	if sameTerm(a, b) {
		return tTrue
	}
	if a.Sort == SBool {
		if b.IsTrue() {
			return a
		}
		if b.IsFalse() {
			return Not(a)
		}
		if a.IsTrue() {
			return b
		}
		if a.IsFalse() {
			return Not(b)
		}
	}
	return mk("=", SBool, a, b)
}

func Lt(a, b *Term) *Term {
	if a.IsInt() && b.IsInt() {
		return Bool(a.I.Cmp(b.I) < 0)
	}
	if sameTerm(a, b) {
		return tFalse
	}
	return mk("<", SBool, a, b)
}

func Le(a, b *Term) *Term {
	if a.IsInt() && b.IsInt() {
		return Bool(a.I.Cmp(b.I) <= 0)
	}
	if sameTerm(a, b) {
		return tTrue
	}
	return mk("<=", SBool, a, b)
}

func Gt(a, b *Term) *Term { return Lt(b, a) }
func Ge(a, b *Term) *Term { return Le(b, a) }

func Ite(c, a, b *Term) *Term {
	if c.IsTrue() {
		return a
	}
	if c.IsFalse() {
		return b
	}
	if sameTerm(a, b) {
		return a
	}
	if a.Sort == SBool {
		if a.IsTrue() && b.IsFalse() {
			return c
		}
		if a.IsFalse() && b.IsTrue() {
			return Not(c)
		}
	}
	return mk("ite", a.Sort, c, a, b)
}

func Select(a, i *Term) *Term {
	if !a.Sort.IsArr() {
		panic("select on non-array " + a.String() + " : " + string(a.Sort))
	}
	// select over store with decidable index comparison
	cur := a
	for cur.Op == "store" {
		j := cur.Args[1]
		if sameTerm(i, j) {
			return cur.Args[2]
		}
		if d, ok := constDiff(i, j); ok && d != 0 {
			cur = cur.Args[0]
			continue
		}
		break
	}
	return mk("select", a.Sort.ElemSort(), cur, i)
}

// constDiff returns i-j when that is a syntactic constant.
func constDiff(i, j *Term) (int64, bool) {
	bi, ci := splitConst(i)
	bj, cj := splitConst(j)
	if (bi == nil) != (bj == nil) {
		return 0, false
	}
	if bi != nil && !sameTerm(bi, bj) {
		return 0, false
	}
	d := new(big.Int).Sub(ci, cj)
	if !d.IsInt64() {
		return 0, false
	}
	return d.Int64(), true
}

func splitConst(t *Term) (*Term, *big.Int) {
	if t.IsInt() {
		return nil, t.I
	}
	if t.Op == "+" && len(t.Args) == 2 && t.Args[1].IsInt() {
		return t.Args[0], t.Args[1].I
	}
	return t, big.NewInt(0)
}

func Store(a, i, v *Term) *Term {
	if !a.Sort.IsArr() {
		panic("store on non-array")
	}
	if a.Sort.ElemSort() != v.Sort {
		panic(fmt.Sprintf("store: elem sort mismatch %s vs %s", a.Sort, v.Sort))
	}
	return mk("store", a.Sort, a, i, v)
}

// App applies an uninterpreted (or defined) function; its signature is
// registered in the UF table for declaration.
func App(name string, s Sort, args ...*Term) *Term {
	return &Term{Op: "app", Name: name, Sort: s, Args: args}
}

func Forall(bound []*Term, body *Term, pats ...*Term) *Term {
	if body.IsTrue() {
		return tTrue
	}
	if len(bound) == 0 {
		return body
	}
	return &Term{Op: "forall", Sort: SBool, Bound: bound, Args: []*Term{body}, Pats: pats}
}

func Exists(bound []*Term, body *Term) *Term {
	if len(bound) == 0 {
		return body
	}
	return &Term{Op: "exists", Sort: SBool, Bound: bound, Args: []*Term{body}}
}

// Subst replaces variables by name.
func Subst(t *Term, m map[string]*Term) *Term {
	if len(m) == 0 {
		return t
	}
	switch t.Op {
	case "int", "bool":
		return t
	case "var":
		if r, ok := m[t.Name]; ok {
			return r
		}
		return t
	case "forall", "exists":
		m2 := m
		for _, b := range t.Bound {
			if _, ok := m2[b.Name]; ok {
				if &m2 == &m || true {
					c := map[string]*Term{}
					for k, v := range m2 {
						c[k] = v
					}
					m2 = c
				}
				delete(m2, b.Name)
			}
		}
		nb := Subst(t.Args[0], m2)
		var np []*Term
		for _, p := range t.Pats {
			np = append(np, Subst(p, m2))
		}
		return &Term{Op: t.Op, Sort: SBool, Bound: t.Bound, Args: []*Term{nb}, Pats: np, AltPats: t.AltPats}
	}
	changed := false
	na := make([]*Term, len(t.Args))
	for i, a := range t.Args {
		na[i] = Subst(a, m)
		if na[i] != a {
			changed = true
		}
	}
	if !changed {
		return t
	}
	return rebuild(t, na)
}

func rebuild(t *Term, a []*Term) *Term {
	switch t.Op {
	case "+":
		if len(a) == 2 {
			return Add(a[0], a[1])
		}
	case "-":
		if len(a) == 1 {
			return Neg(a[0])
		}
		return Sub(a[0], a[1])
	case "*":
		return Mul(a[0], a[1])
	case "div":
		return Div(a[0], a[1])
	case "mod":
		return Mod(a[0], a[1])
	case "not":
		return Not(a[0])
	case "and":
		return And(a...)
	case "or":
		return Or(a...)
	case "=>":
		return Implies(a[0], a[1])
	case "=":
		return Eq(a[0], a[1])
	case "<":
		return Lt(a[0], a[1])
	case "<=":
		return Le(a[0], a[1])
	case "ite":
		return Ite(a[0], a[1], a[2])
	case "select":
		return Select(a[0], a[1])
	case "store":
		return Store(a[0], a[1], a[2])
	}
	return &Term{Op: t.Op, Sort: t.Sort, Name: t.Name, Args: a}
}

// ---------------------------------------------------------------------------
// Declarations

type UFSig struct {
	Name string
	Args []Sort
	Ret  Sort
	// Def, when non-nil, is the body of a define-fun over Params.
	Params []*Term
	Def    *Term
}

type declCollector struct {
	vars  map[string]Sort
	apps  map[string]bool
	sorts map[string]bool
}

func collect(t *Term, bound map[string]bool, dc *declCollector) {
	noteSort(t.Sort, dc)
	switch t.Op {
	case "int", "bool":
		return
	case "var":
		if !bound[t.Name] {
			dc.vars[t.Name] = t.Sort
		}
		return
	case "forall", "exists":
		nb := map[string]bool{}
		for k := range bound {
			nb[k] = true
		}
		for _, b := range t.Bound {
			nb[b.Name] = true
			noteSort(b.Sort, dc)
		}
		collect(t.Args[0], nb, dc)
		for _, p := range t.Pats {
			collect(p, nb, dc)
		}
		return
	case "app":
		dc.apps[t.Name] = true
	}
	for _, a := range t.Args {
		collect(a, bound, dc)
	}
}

func noteSort(s Sort, dc *declCollector) {
	str := string(s)
	// uninterpreted sorts are identifiers starting with "U_"
	for _, f := range strings.FieldsFunc(str, func(r rune) bool { return r == '(' || r == ')' || r == ' ' }) {
		if strings.HasPrefix(f, "U_") {
			dc.sorts[f] = true
		}
	}
}

// Script builds an SMT-LIB script that is unsat iff facts imply goal.
// AxiomWhen[i] lists the symbols that must all be present for axiom i to be included (nil: any shared symbol).
var AxiomWhen = map[*Term][]string{}

func Script(facts []*Term, goal *Term, ufs map[string]*UFSig, axioms []*Term) string {
	dc := &declCollector{vars: map[string]Sort{}, apps: map[string]bool{}, sorts: map[string]bool{}}
	for _, f := range facts {
		collect(f, nil, dc)
	}
	if goal != nil {
		collect(goal, nil, dc)
	}
	// axioms relevant to the used function symbols (transitively)
	usedAx := []*Term{}
	taken := map[int]bool{}
	for changed := true; changed; {
		changed = false
		// definitions pull in symbols too
		for name := range dc.apps {
			if sig := ufs[name]; sig != nil && sig.Def != nil {
				before := len(dc.apps)
				b := map[string]bool{}
				for _, p := range sig.Params {
					b[p.Name] = true
				}
				collect(sig.Def, b, dc)
				if len(dc.apps) != before {
					changed = true
				}
			}
		}
		for i, ax := range axioms {
			if taken[i] {
				continue
			}
			adc := &declCollector{vars: map[string]Sort{}, apps: map[string]bool{}, sorts: map[string]bool{}}
			collect(ax, nil, adc)
			rel := false
			if when, ok := AxiomWhen[ax]; ok {
				rel = true
				for _, w := range when {
					if !dc.apps[w] {
						rel = false
					}
				}
			} else {
				for n := range adc.apps {
					if dc.apps[n] {
						rel = true
					}
				}
			}
			if rel {
				taken[i] = true
				insts := instantiateArrayVars(ax, AxiomWhen[ax], facts, goal)
				for _, in := range insts {
					usedAx = append(usedAx, in)
					collect(in, nil, dc)
				}
				changed = true
			}
		}
	}
	var sb strings.Builder
	sb.WriteString("(set-option :produce-models true)\n(set-logic ALL)\n")
	var sn []string
	for s := range dc.sorts {
		sn = append(sn, s)
	}
	sort.Strings(sn)
	for _, s := range sn {
		sb.WriteString("(declare-sort " + s + " 0)\n")
	}
	var vn []string
	for v := range dc.vars {
		vn = append(vn, v)
	}
	sort.Strings(vn)
	for _, v := range vn {
		sb.WriteString("(declare-fun " + smtName(v) + " () " + string(dc.vars[v]) + ")\n")
	}
	var an []string
	for a := range dc.apps {
		an = append(an, a)
	}
	sort.Strings(an)
	// uninterpreted first, then definitions in dependency order
	var defs []string
	for _, a := range an {
		sig := ufs[a]
		if sig == nil {
			panic("undeclared function symbol " + a)
		}
		if sig.Def != nil {
			defs = append(defs, a)
			continue
		}
		sb.WriteString("(declare-fun " + smtName(a) + " (")
		for i, s := range sig.Args {
			if i > 0 {
				sb.WriteString(" ")
			}
			sb.WriteString(string(s))
		}
		sb.WriteString(") " + string(sig.Ret) + ")\n")
	}
	emitted := map[string]bool{}
	var emit func(name string)
	emit = func(name string) {
		if emitted[name] {
			return
		}
		emitted[name] = true
		sig := ufs[name]
		d := &declCollector{vars: map[string]Sort{}, apps: map[string]bool{}, sorts: map[string]bool{}}
		collect(sig.Def, nil, d)
		var deps []string
		for n := range d.apps {
			if s := ufs[n]; s != nil && s.Def != nil {
				deps = append(deps, n)
			}
		}
		sort.Strings(deps)
		for _, n := range deps {
			emit(n)
		}
		sb.WriteString("(define-fun " + smtName(name) + " (")
		for i, p := range sig.Params {
			if i > 0 {
				sb.WriteString(" ")
			}
			sb.WriteString("(" + smtName(p.Name) + " " + string(p.Sort) + ")")
		}
		sb.WriteString(") " + string(sig.Ret) + " " + sig.Def.String() + ")\n")
	}
	for _, d := range defs {
		emit(d)
	}
	for _, ax := range usedAx {
		sb.WriteString("(assert " + ax.String() + ")\n")
	}
	for _, f := range facts {
		if f.IsTrue() {
			continue
		}
		sb.WriteString("(assert " + f.String() + ")\n")
	}
	if goal != nil {
		sb.WriteString("(assert (not " + goal.String() + "))\n")
	}
	sb.WriteString("(check-sat)\n")
	return sb.String()
}

// selectPatterns: select terms of body whose index mentions every bound variable and
// whose array mentions none; used as alternative triggers.
func selectPatterns(body *Term, bound []*Term) []*Term {
	names := map[string]bool{}
	for _, b := range bound {
		names[b.Name] = true
	}
	var out []*Term
	seen := map[string]bool{}
	var mentions func(t *Term, acc map[string]bool)
	mentions = func(t *Term, acc map[string]bool) {
		if t.Op == "var" && names[t.Name] {
			acc[t.Name] = true
		}
		for _, a := range t.Args {
			mentions(a, acc)
		}
	}
	var walk func(t *Term)
	walk = func(t *Term) {
		if t.Op == "forall" || t.Op == "exists" {
			return
		}
		if t.Op == "select" {
			ia, aa := map[string]bool{}, map[string]bool{}
			mentions(t.Args[1], ia)
			mentions(t.Args[0], aa)
			if len(ia) == len(names) && len(aa) == 0 {
				k := t.String()
				if !seen[k] {
					seen[k] = true
					out = append(out, t)
				}
			}
		}
		for _, a := range t.Args {
			walk(a)
		}
	}
	walk(body)
	if len(out) > 6 {
		out = out[:6]
	}
	return out
}

// instantiateArrayVars: z3's array theory is incomplete under quantification over array-sorted
// variables, so axioms that quantify over arrays are instantiated by the generator with every
// array term that occurs as an argument of the axiom's trigger symbols in the VC; the remaining
// quantifier ranges over integers only.
func instantiateArrayVars(ax *Term, when []string, facts []*Term, goal *Term) []*Term {
	if ax.Op != "forall" || len(when) == 0 {
		return []*Term{ax}
	}
	var arrVars, rest []*Term
	for _, b := range ax.Bound {
		if b.Sort.IsArr() {
			arrVars = append(arrVars, b)
		} else {
			rest = append(rest, b)
		}
	}
	if len(arrVars) == 0 {
		return []*Term{ax}
	}
	trig := map[string]bool{}
	for _, w := range when {
		trig[w] = true
	}
	cands := map[string]*Term{}
	var order []string
	var walk func(t *Term, bound map[string]bool)
	walk = func(t *Term, bound map[string]bool) {
		if t.Op == "forall" || t.Op == "exists" {
			nb := map[string]bool{}
			for k := range bound {
				nb[k] = true
			}
			for _, b := range t.Bound {
				nb[b.Name] = true
			}
			walk(t.Args[0], nb)
			return
		}
		if t.Op == "app" && trig[t.Name] {
			for _, a := range t.Args {
				if a.Sort.IsArr() && !mentionsAny(a, bound) {
					k := a.String()
					if _, ok := cands[k]; !ok {
						cands[k] = a
						order = append(order, k)
					}
				}
			}
		}
		for _, a := range t.Args {
			walk(a, bound)
		}
	}
	for _, f := range facts {
		walk(f, nil)
	}
	if goal != nil {
		walk(goal, nil)
	}
	if len(order) == 0 {
		return nil
	}
	if len(order) > 8 {
		order = order[:8]
	}
	var out []*Term
	var rec func(i int, m map[string]*Term)
	rec = func(i int, m map[string]*Term) {
		if i == len(arrVars) {
			body := Subst(ax.Args[0], m)
			var pats []*Term
			for _, p := range ax.Pats {
				pats = append(pats, Subst(p, m))
			}
			if len(rest) == 0 {
				out = append(out, body)
			} else {
				out = append(out, &Term{Op: "forall", Sort: SBool, Bound: rest, Args: []*Term{body}, Pats: pats, AltPats: ax.AltPats})
			}
			return
		}
		for _, k := range order {
			if cands[k].Sort != arrVars[i].Sort {
				continue
			}
			m2 := map[string]*Term{}
			for kk, vv := range m {
				m2[kk] = vv
			}
			m2[arrVars[i].Name] = cands[k]
			rec(i+1, m2)
		}
	}
	rec(0, map[string]*Term{})
	return out
}

func mentionsAny(t *Term, names map[string]bool) bool {
	if len(names) == 0 {
		return false
	}
	if t.Op == "var" {
		return names[t.Name]
	}
	for _, a := range t.Args {
		if mentionsAny(a, names) {
			return true
		}
	}
	return false
}

func hasOp(t *Term, op string) bool {
	if t == nil {
		return false
	}
	if t.Op == op {
		return true
	}
	for _, a := range t.Args {
		if hasOp(a, op) {
			return true
		}
	}
	return false
}
