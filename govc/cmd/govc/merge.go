package main

// State merging at if/else joins.  Independent feature-gate diamonds
// (`if Feature.In(v) { ... }`) multiply paths exponentially; when both arms of
// an If reach the If's immediate post-dominator with states that differ only
// in mergeable values, the two states are joined with ite terms and the
// exploration continues once.  States that cannot be merged (different target
// objects, different defer stacks, ...) simply continue separately, so merging
// never changes what is explored - only how often.

import (
	"fmt"
	"go/types"

	"golang.org/x/tools/go/ssa"
)

type stopRec struct {
	block   *ssa.BasicBlock
	depth   int
	collect func(st *State, prev *ssa.BasicBlock)
}

type arrival struct {
	st   *State
	prev *ssa.BasicBlock
}

var ipdomCache = map[*ssa.Function]map[*ssa.BasicBlock]*ssa.BasicBlock{}

// ipdoms computes immediate post-dominators (virtual exit joins all blocks without successors).
func ipdoms(fn *ssa.Function) map[*ssa.BasicBlock]*ssa.BasicBlock {
	if m, ok := ipdomCache[fn]; ok {
		return m
	}
	n := len(fn.Blocks)
	exit := n
	// post-dominator sets by iterative data flow (functions are small)
	pd := make([]map[int]bool, n+1)
	all := map[int]bool{}
	for i := 0; i <= n; i++ {
		all[i] = true
	}
	for i := 0; i < n; i++ {
		pd[i] = all
	}
	pd[exit] = map[int]bool{exit: true}
	succs := func(i int) []int {
		b := fn.Blocks[i]
		if len(b.Succs) == 0 {
			return []int{exit}
		}
		var out []int
		for _, s := range b.Succs {
			out = append(out, s.Index)
		}
		return out
	}
	for changed := true; changed; {
		changed = false
		for i := n - 1; i >= 0; i-- {
			var inter map[int]bool
			for _, s := range succs(i) {
				if inter == nil {
					inter = map[int]bool{}
					for k := range pd[s] {
						inter[k] = true
					}
				} else {
					for k := range inter {
						if !pd[s][k] {
							delete(inter, k)
						}
					}
				}
			}
			if inter == nil {
				inter = map[int]bool{}
			}
			inter[i] = true
			if len(inter) != len(pd[i]) {
				pd[i] = inter
				changed = true
			}
		}
	}
	res := map[*ssa.BasicBlock]*ssa.BasicBlock{}
	for i := 0; i < n; i++ {
		// immediate post-dominator: the strict post-dominator that is post-dominated by all others
		var best = -1
		for c := range pd[i] {
			if c == i || c == exit {
				continue
			}
			ok := true
			for d := range pd[i] {
				if d == i || d == c || d == exit {
					continue
				}
				if !pd[c][d] {
					ok = false
					break
				}
			}
			if ok {
				best = c
			}
		}
		if best >= 0 {
			res[fn.Blocks[i]] = fn.Blocks[best]
		}
	}
	ipdomCache[fn] = res
	return res
}

// runIfMerged explores both arms of an If up to the join block and merges.
// It returns false when merging does not apply (caller falls back to plain forking).
func (fr *FnRun) runIfMerged(st *State, b *ssa.BasicBlock, c *Term, depth int, k retK) bool {
	fn := b.Parent()
	J := ipdoms(fn)[b]
	if J == nil || J == b {
		return false
	}
	if fr.loopOf(fn, J) != nil {
		return false
	}
	// the join must lie in the same loops as the If (otherwise arms end at back edges / exits)
	for _, li := range fr.loopsOf(fn) {
		if li.blocks[b] != li.blocks[J] {
			return false
		}
	}
	tb, fb := b.Succs[0], b.Succs[1]
	base := len(st.facts)
	var arrived []arrival
	collect := func(s *State, prev *ssa.BasicBlock) { arrived = append(arrived, arrival{s, prev}) }
	run := func(s *State, to *ssa.BasicBlock) {
		s.stops = append(s.stops[:len(s.stops):len(s.stops)], &stopRec{block: J, depth: depth, collect: collect})
		fr.runFrom(s, to, b, depth, k)
	}
	st2 := st.clone()
	st.assume(c)
	st.note(fmt.Sprintf("b%d:T", b.Index))
	st2.assume(Not(c))
	st2.note(fmt.Sprintf("b%d:F", b.Index))
	nT := 0
	run(st, tb)
	nT = len(arrived)
	run(st2, fb)
	nF := len(arrived) - nT
	if nT == 1 && nF == 1 {
		fr.mergeMade = nil
		if m := fr.mergeStates(arrived[0], arrived[1], c, base, J); m != nil {
			made := fr.mergeMade
			if len(made) == 0 {
				fr.runFrom(m, J, nil, depth, k)
				return true
			}
			// the merge introduced array objects joined from two different backing arrays; if the
			// code after the join writes into one of them in place, the merge is undone (obligations
			// recorded so far by the merged continuation are dropped) and both arms continue separately
			ex := fr.ex
			snapO, snapC, snapN := len(ex.Obls), len(ex.Covers), fr.nobl
			ok := func() (ok bool) {
				defer func() {
					if r := recover(); r != nil {
						if ae, isA := r.(*abortErr); isA && ae.mergedWrite != nil {
							for _, o := range made {
								if o == ae.mergedWrite {
									ok = false
									return
								}
							}
						}
						panic(r)
					}
				}()
				fr.runFrom(m, J, nil, depth, k)
				return true
			}()
			if ok {
				return true
			}
			ex.Obls, ex.Covers, fr.nobl = ex.Obls[:snapO], ex.Covers[:snapC], snapN
		}
	}
	for _, a := range arrived {
		fr.runFrom(a.st, J, a.prev, depth, k)
	}
	return true
}

func (fr *FnRun) loopsOf(fn *ssa.Function) []*loopInfo {
	var m map[*ssa.BasicBlock]*loopInfo
	if fn == fr.fn {
		m = fr.loops
	} else {
		m = fr.ex.inlineLoops(fn)
	}
	var out []*loopInfo
	for _, li := range m {
		out = append(out, li)
	}
	return out
}

// mergeStates joins a (true arm) and b (false arm); nil when not mergeable.
func (fr *FnRun) mergeStates(a, b arrival, c *Term, base int, J *ssa.BasicBlock) (res *State) {
	defer func() {
		if r := recover(); r != nil {
			if _, ok := r.(noMerge); ok {
				res = nil
				return
			}
			panic(r)
		}
	}()
	ex := fr.ex
	sa, sb := a.st, b.st
	if len(sa.defers) != len(sb.defers) || sa.epoch != sb.epoch || len(sa.guards) != len(sb.guards) || len(sa.stops) != len(sb.stops) {
		return nil
	}
	for i := range sa.defers {
		if sa.defers[i] != sb.defers[i] {
			return nil
		}
	}
	m := sa.clone()
	fr.mergeInto = m
	defer func() { fr.mergeInto = nil }()
	// facts: common prefix, then guarded branch facts
	m.facts = append([]*Term(nil), sa.facts[:base]...)
	m.facts = append(m.facts, Implies(c, And(sa.facts[base:]...)), Implies(Not(c), And(sb.facts[base:]...)))
	m.trace = append(append([]string(nil), sa.trace[:len(sa.trace)-0]...), "merge")
	// heap
	seen := map[*Obj]bool{}
	for o := range sa.heap {
		seen[o] = true
	}
	for o := range sb.heap {
		seen[o] = true
	}
	for o := range seen {
		va, oka := sa.heap[o]
		vb, okb := sb.heap[o]
		if oka && okb && va == vb {
			continue
		}
		if !oka {
			va = ex.heapGet(sa, o)
		}
		if !okb {
			vb = ex.heapGet(sb, o)
		}
		m.heap[o] = fr.mergeVal(sa, sb, c, va, vb)
	}
	// phis of the join block
	m.phiOverride = map[*ssa.Phi]Val{}
	ia, ib := -1, -1
	for i, p := range J.Preds {
		if p == a.prev {
			ia = i
		}
		if p == b.prev {
			ib = i
		}
	}
	for _, in := range J.Instrs {
		ph, ok := in.(*ssa.Phi)
		if !ok {
			break
		}
		if ia < 0 || ib < 0 {
			return nil
		}
		sa.vals, sb.vals = a.st.vals, b.st.vals
		va := fr.value(sa, ph.Edges[ia])
		vb := fr.value(sb, ph.Edges[ib])
		m.phiOverride[ph] = fr.mergeVal(sa, sb, c, va, vb)
	}
	// stale arrays / view images: union
	for o, w := range sb.stale {
		if m.stale == nil {
			m.stale = map[*Obj]string{}
		}
		m.stale[o] = w
	}
	for kk, v := range sb.viewImg {
		if m.viewImg == nil {
			m.viewImg = map[string]*Term{}
		}
		if _, ok := m.viewImg[kk]; !ok {
			m.viewImg[kk] = v
		}
	}
	return m
}

type noMerge struct{}

func (fr *FnRun) mergeVal(sa, sb *State, c *Term, a, b Val) Val {
	ex := fr.ex
	if a == b {
		return a
	}
	if la, ok := a.(*LazyV); ok {
		if lb, ok2 := b.(*LazyV); ok2 && la.Name == lb.Name {
			return a
		}
		a = ex.force(sa, la)
	}
	if lb, ok := b.(*LazyV); ok {
		b = ex.force(sb, lb)
	}
	switch x := a.(type) {
	case *Term:
		if y, ok := b.(*Term); ok && x.Sort == y.Sort {
			if x.Sort.IsArr() {
				return fr.iteArr(c, x, y)
			}
			// a large merged scalar is named (printing shares nothing, so nested ite terms over
			// running lengths would otherwise double in size at every gate)
			if fr.mergeInto != nil && !sameTerm(x, y) && (termBigger(x, 12) || termBigger(y, 12)) {
				mv := Var(fr.ex.fresh("let!merged"), x.Sort)
				fr.mergeInto.facts = append(fr.mergeInto.facts, Eq(mv, Ite(c, x, y)))
				return mv
			}
			return Ite(c, x, y)
		}
	case *StructV:
		if y, ok := b.(*StructV); ok && len(x.F) == len(y.F) && types.Identical(x.T, y.T) {
			n := &StructV{T: x.T, F: make([]Val, len(x.F))}
			for i := range x.F {
				n.F[i] = fr.mergeVal(sa, sb, c, x.F[i], y.F[i])
			}
			if x.Ghost != nil {
				n.Ghost = map[string]Val{}
				for g, gv := range x.Ghost {
					hv, ok := y.Ghost[g]
					if !ok {
						panic(noMerge{})
					}
					n.Ghost[g] = fr.mergeVal(sa, sb, c, gv, hv)
				}
			}
			return n
		}
	case *PtrV:
		if y, ok := b.(*PtrV); ok {
			if x.Obj == y.Obj && samePath(x.Path, y.Path) && x.ViewOf == y.ViewOf {
				return &PtrV{Nil: Ite(c, x.Nil, y.Nil), Obj: x.Obj, Path: x.Path, Elem: x.Elem, ViewOf: x.ViewOf, ViewIdx: x.ViewIdx}
			}
			// nil on one side: keep the target of the other
			if x.Nil.IsTrue() && y.Obj != nil {
				return &PtrV{Nil: Ite(c, tTrue, y.Nil), Obj: y.Obj, Path: y.Path, Elem: y.Elem}
			}
			if y.Nil.IsTrue() && x.Obj != nil {
				return &PtrV{Nil: Ite(c, x.Nil, tTrue), Obj: x.Obj, Path: x.Path, Elem: x.Elem}
			}
		}
	case *SliceV:
		if y, ok := b.(*SliceV); ok && x.ViewW == y.ViewW && samePath(x.Base, y.Base) {
			if x.Arr == y.Arr {
				return &SliceV{Nil: Ite(c, x.Nil, y.Nil), Arr: x.Arr, Off: fr.iteS(c, x.Off, y.Off), Len: fr.iteS(c, x.Len, y.Len), Cap: fr.iteS(c, x.Cap, y.Cap), Elem: x.Elem, ViewW: x.ViewW, ViewElem: x.ViewElem, Base: x.Base}
			}
			if x.Arr == nil && x.Nil.IsTrue() {
				return &SliceV{Nil: Ite(c, tTrue, y.Nil), Arr: y.Arr, Off: y.Off, Len: fr.iteS(c, Int(0), y.Len), Cap: fr.iteS(c, Int(0), y.Cap), Elem: y.Elem, Base: y.Base}
			}
			if y.Arr == nil && y.Nil.IsTrue() {
				return &SliceV{Nil: Ite(c, x.Nil, tTrue), Arr: x.Arr, Off: x.Off, Len: fr.iteS(c, x.Len, Int(0)), Cap: fr.iteS(c, x.Cap, Int(0)), Elem: x.Elem, Base: x.Base}
			}
			// different backing arrays of scalar elements (one arm appended through a contract, the
			// other did not): a fresh array object whose content is the ite of both.  Writes through
			// the merged object would not reach older aliases of either source, so the object is
			// marked read-only for in-place writes (an in-place write aborts the function).
			if x.Arr != nil && y.Arr != nil && x.ViewW == 0 && len(x.Base) == 0 && fr.mergeInto != nil {
				if _, scalar := scalarSort(x.Elem); scalar {
					da, oka := fr.arrOf(sa, x).Data.(*Term)
					db, okb := fr.arrOf(sb, y).Data.(*Term)
					if oka && okb && da.Sort == db.Sort {
						o := ex.newObj(ex.fresh(accessPrefix(x.Arr.Name)+".merged"), x.Arr.T)
						o.IsArr = true
						o.Merged = true
						fr.mergeMade = append(fr.mergeMade, o)
						// a named array constant (ite terms may not occur in quantifier patterns)
						mt := Var(o.Name, da.Sort)
						fr.mergeInto.facts = append(fr.mergeInto.facts, Implies(c, Eq(mt, da)), Implies(Not(c), Eq(mt, db)))
						fr.mergeInto.heap[o] = &ArrayV{Elem: x.Elem, N: -1, Data: mt}
						return &SliceV{Nil: Ite(c, x.Nil, y.Nil), Arr: o, Off: fr.iteS(c, x.Off, y.Off), Len: fr.iteS(c, x.Len, y.Len), Cap: fr.iteS(c, x.Cap, y.Cap), Elem: x.Elem}
					}
				}
			}
		}
	case *StrV:
		if y, ok := b.(*StrV); ok {
			return &StrV{Arr: fr.iteArr(c, x.Arr, y.Arr), Len: fr.iteS(c, x.Len, y.Len)}
		}
	case *ArrayV:
		if y, ok := b.(*ArrayV); ok && x.N == y.N {
			return &ArrayV{Elem: x.Elem, N: x.N, Data: fr.mergeArr(c, x.Data, y.Data)}
		}
	case *IfaceV:
		if y, ok := b.(*IfaceV); ok {
			if x.Obj == y.Obj && ((x.Dyn == nil && y.Dyn == nil) || (x.Dyn != nil && y.Dyn != nil && types.Identical(x.Dyn, y.Dyn))) {
				n := &IfaceV{Nil: Ite(c, x.Nil, y.Nil), Dyn: x.Dyn, Obj: x.Obj, T: x.T}
				if x.Pay != nil || y.Pay != nil {
					if x.Pay == nil || y.Pay == nil {
						panic(noMerge{})
					}
					n.Pay = fr.mergeVal(sa, sb, c, x.Pay, y.Pay)
				}
				return n
			}
			if x.Nil.IsTrue() && x.Obj == nil && x.Pay == nil {
				return &IfaceV{Nil: Ite(c, tTrue, y.Nil), Dyn: y.Dyn, Pay: y.Pay, Obj: y.Obj, T: y.T}
			}
			if y.Nil.IsTrue() && y.Obj == nil && y.Pay == nil {
				return &IfaceV{Nil: Ite(c, x.Nil, tTrue), Dyn: x.Dyn, Pay: x.Pay, Obj: x.Obj, T: x.T}
			}
		}
	case *MapV:
		if y, ok := b.(*MapV); ok && x.Obj == y.Obj {
			return &MapV{Nil: Ite(c, x.Nil, y.Nil), Obj: x.Obj, K: x.K, V: x.V}
		}
	case *MapObjV:
		if y, ok := b.(*MapObjV); ok {
			return &MapObjV{Has: Ite(c, x.Has, y.Has), Val: fr.mergeArr(c, x.Val, y.Val), Len: fr.iteS(c, x.Len, y.Len)}
		}
	case *FuncV:
		if y, ok := b.(*FuncV); ok && x.Fn == y.Fn && x.Name == y.Name && len(x.Free) == len(y.Free) {
			for i := range x.Free {
				if x.Free[i] != y.Free[i] {
					panic(noMerge{})
				}
			}
			return &FuncV{Nil: Ite(c, x.Nil, y.Nil), Fn: x.Fn, Free: x.Free, Recv: x.Recv, Name: x.Name}
		}
	case *TupleV:
		if y, ok := b.(*TupleV); ok && len(x.E) == len(y.E) {
			n := &TupleV{E: make([]Val, len(x.E))}
			for i := range x.E {
				n.E[i] = fr.mergeVal(sa, sb, c, x.E[i], y.E[i])
			}
			return n
		}
	case *OpaqueV:
		if y, ok := b.(*OpaqueV); ok && x.Name == y.Name {
			return x
		}
	case *unsafeV:
		if y, ok := b.(*unsafeV); ok && x.Arr == y.Arr && x.Of == y.Of {
			return x
		}
	}
	panic(noMerge{})
}

// iteArr merges two array-sorted terms into a named constant with guarded defining equations
// (an ite term over arrays may not occur in a quantifier pattern).
func (fr *FnRun) iteArr(c, a, b *Term) *Term {
	if sameTerm(a, b) {
		return a
	}
	if fr.mergeInto == nil || !a.Sort.IsArr() {
		return Ite(c, a, b)
	}
	mt := Var(fr.ex.fresh("merged.arr"), a.Sort)
	fr.mergeInto.facts = append(fr.mergeInto.facts, Implies(c, Eq(mt, a)), Implies(Not(c), Eq(mt, b)))
	return mt
}

func (fr *FnRun) mergeArr(c *Term, a, b ArrData) ArrData {
	if a == b {
		return a
	}
	switch x := a.(type) {
	case *Term:
		if y, ok := b.(*Term); ok && x.Sort == y.Sort {
			return fr.iteArr(c, x, y)
		}
	case *StructArr:
		if y, ok := b.(*StructArr); ok && len(x.F) == len(y.F) {
			n := &StructArr{T: x.T, F: make([]ArrData, len(x.F))}
			for i := range x.F {
				n.F[i] = fr.mergeArr(c, x.F[i], y.F[i])
			}
			return n
		}
	case *NestedArr:
		if y, ok := b.(*NestedArr); ok {
			return &NestedArr{T: x.T, Data: fr.iteArr(c, x.Data, y.Data)}
		}
	}
	panic(noMerge{})
}

// iteS merges two scalars, naming the result when it is large.
func (fr *FnRun) iteS(c, x, y *Term) *Term {
	if fr.mergeInto != nil && !sameTerm(x, y) && !x.Sort.IsArr() && (termBigger(x, 12) || termBigger(y, 12)) {
		mv := Var(fr.ex.fresh("let!merged"), x.Sort)
		fr.mergeInto.facts = append(fr.mergeInto.facts, Eq(mv, Ite(c, x, y)))
		return mv
	}
	return Ite(c, x, y)
}

// termBigger reports whether t has more than n nodes (tree size).
func termBigger(t *Term, n int) bool {
	var count func(t *Term) int
	count = func(t *Term) int {
		if t == nil {
			return 0
		}
		c := 1
		for _, a := range t.Args {
			c += count(a)
			if c > n {
				return c
			}
		}
		return c
	}
	return count(t) > n
}
