package main

import (
	"go/token"
	"fmt"
	"strconv"
	"go/types"
	"os"
	"sort"
	"strings"

	"golang.org/x/tools/go/ssa"
)

const repoModule = "github.com/ClickHouse/ch-go"

// evalCallee evaluates the function value and arguments of a call.
func (fr *FnRun) evalCallee(st *State, c *ssa.CallCommon) (Val, []Val) {
	var args []Val
	if c.IsInvoke() {
		recv := fr.value(st, c.Value)
		args = append(args, recv)
		for _, a := range c.Args {
			args = append(args, fr.value(st, a))
		}
		return nil, args
	}
	for _, a := range c.Args {
		args = append(args, fr.value(st, a))
	}
	return fr.value(st, c.Value), args
}

type callK func(st *State, res Val)

func (fr *FnRun) call(st *State, site ssa.Instruction, c *ssa.CallCommon, depth int, k callK) {
	fnv, args := fr.evalCallee(st, c)
	fr.siteArgs = args
	fr.checkCallSite(st, site, c)
	fr.siteArgs = nil
	fr.bumpCallCounters(st, site)
	fr.callVal(st, site, c, fnv, args, depth, k)
}

// siteDesc describes a call statically: interface method, static callee, or the local variable a
// function value is called through.
func (fr *FnRun) siteDesc(c *ssa.CallCommon) string {
	if c.IsInvoke() {
		return TypeKey(c.Value.Type()) + "." + c.Method.Name()
	}
	if fn := c.StaticCallee(); fn != nil {
		return ShortKey(FuncKey(fn))
	}
	for name, cands := range fr.locals {
		for _, v := range cands {
			if v == c.Value {
				return "value:" + name
			}
			// a load of an address-taken local
			if u, ok := c.Value.(*ssa.UnOp); ok && u.X == v {
				return "value:" + name
			}
		}
	}
	// a function-typed struct field: value:<FieldName>
	switch v := c.Value.(type) {
	case *ssa.UnOp:
		if fa, ok := v.X.(*ssa.FieldAddr); ok {
			return "value:" + fieldName(fa)
		}
	case *ssa.Field:
		if stt, ok := under(v.X.Type()).(*types.Struct); ok && v.Field < stt.NumFields() {
			return "value:" + stt.Field(v.Field).Name()
		}
	}
	return "value:" + c.Value.Name()
}

// checkCallSite emits the `site` obligations of the contract's callsite specs for a call made by
// the function under verification itself (not by inlined callees).
func (fr *FnRun) checkCallSite(st *State, site ssa.Instruction, c *ssa.CallCommon) {
	if fr.ctr == nil || len(fr.ctr.Sites) == 0 || site == nil || site.Parent() != fr.fn {
		return
	}
	fr.checkSite(st, site, fr.siteDesc(c))
}

// checkAllocSite: the same for a heap allocation matched by a `new:Type` pattern.
func (fr *FnRun) checkAllocSite(st *State, al *ssa.Alloc) {
	if fr.ctr == nil || len(fr.ctr.Sites) == 0 || !al.Heap || al.Parent() != fr.fn {
		return
	}
	fr.checkSite(st, al, "allocation of "+TypeKey(al.Type().(*types.Pointer).Elem()))
}

func (fr *FnRun) checkSite(st *State, site ssa.Instruction, desc string) {
	for _, sp := range fr.ctr.Sites {
		if !fr.siteMatches(sp, site) {
			continue
		}
		vars := map[string]Val{}
		for k, v := range fr.env0 {
			vars[k] = v
		}
		fr.bindLocalsAt(st, vars, site)
		// arg0, arg1, ...: the arguments of the call (for a statically dispatched method the receiver
		// is arg0; for an interface call arg0 is the receiver value as well)
		for ai, av := range fr.siteArgs {
			vars[fmt.Sprintf("arg%d", ai)] = av
		}
		if _, isDefer := site.(*ssa.Defer); isDefer {
			for kk, vv := range fr.pendingRet {
				vars[kk] = vv
			}
		}
		env := &Env{st: st, old: fr.entry, vars: vars, fr: fr}
		for i, a := range sp.Asserts {
			d := a.Label
			if d == "" {
				d = fmt.Sprintf("%s.%d", sp.Pattern, i+1)
			}
			t, msg := fr.tryEvalBool(a.E, env)
			if msg != "" {
				if n := fr.staleName(msg); n != "" && fr.fn.Parent() == nil {
					panic(abortf("contract out of date: call-site assertion {%s} mentions %q, which is not a parameter or local of the function any more (renamed or removed); the contract has to be updated", d, n))
				}
				fr.oblige(st, "site", d, tFalse, a, a.Src+"   [cannot be evaluated before the call to "+desc+": "+msg+"]")
				continue
			}
			fr.oblige(st, "site", d+"@"+fr.ordOf(site), t, a, "before the call to "+desc+": "+a.Src)
			st.assume(t)
		}
	}
}

// matchingSites lists the calls of the function a callsite spec applies to, in source order.  A
// pattern `text#n` selects the n-th (1-based) call whose description contains text.
func (fr *FnRun) matchingSites(sp *CallSiteSpec) []ssa.Instruction {
	pat, nth := sp.Pattern, 0
	if i := strings.LastIndex(pat, "#"); i >= 0 {
		if n, err := strconv.Atoi(pat[i+1:]); err == nil {
			pat, nth = pat[:i], n
		}
	}
	var all []ssa.Instruction
	for _, b := range fr.fn.Blocks {
		for _, in := range b.Instrs {
			if ci, ok := in.(ssa.CallInstruction); ok {
				if d := fr.siteDesc(ci.Common()); d == pat || strings.HasSuffix(d, pat) {
					all = append(all, in)
				}
			}
			// `new:Type`: a heap allocation (new(T) / &T{...}) of that type
			if al, ok := in.(*ssa.Alloc); ok && al.Heap && strings.HasPrefix(pat, "new:") {
				if d := "new:" + TypeKey(al.Type().(*types.Pointer).Elem()); d == pat || strings.HasSuffix(d, "."+strings.TrimPrefix(pat, "new:")) {
					all = append(all, in)
				}
			}
		}
	}
	sort.SliceStable(all, func(i, j int) bool { return all[i].Pos() < all[j].Pos() })
	if nth > 0 {
		if nth <= len(all) {
			return all[nth-1 : nth]
		}
		return nil
	}
	return all
}

func (fr *FnRun) siteMatches(sp *CallSiteSpec, site ssa.Instruction) bool {
	for _, in := range fr.matchingSites(sp) {
		if in == site {
			return true
		}
	}
	return false
}

// checkSitesExist: every callsite spec must match at least one call of the function.
func (fr *FnRun) checkSitesExist(st *State) {
	if fr.ctr == nil {
		return
	}
	for _, sp := range fr.ctr.Sites {
		found := len(fr.matchingSites(sp)) > 0
		if sp.Forbidden {
			g := tTrue
			if found {
				g = tFalse
			}
			fr.oblige(st, "no-call", sp.Pattern, g, nil, "the function makes no call matching "+sp.Pattern)
			continue
		}
		if found {
			fr.oblige(st, "site-exists", sp.Pattern, tTrue, nil, "a call matching "+sp.Pattern+" exists")
		} else {
			fr.oblige(st, "site-exists", sp.Pattern, tFalse, nil, "the function no longer makes a call matching "+sp.Pattern+" (the contract states what must hold before it)")
		}
	}
}

func (fr *FnRun) callVal(st *State, site ssa.Instruction, c *ssa.CallCommon, fnv Val, args []Val, depth int, k callK) {
	ex := fr.ex
	if c.IsInvoke() {
		recv, ok := ex.force(st, args[0]).(*IfaceV)
		if !ok {
			panic(abortf("invoke on %T", args[0]))
		}
		fr.oblige(st, "nil", fr.ordOf(site)+"i", Not(recv.Nil), nil, "interface method call on non-nil value ("+c.Method.Name()+")")
		st.assume(Not(recv.Nil))
		if recv.Dyn != nil {
			// resolve the concrete method
			ms := ex.P.Prog.MethodSets.MethodSet(recv.Dyn)
			sel := ms.Lookup(c.Method.Pkg(), c.Method.Name())
			if sel != nil {
				if m := ex.P.Prog.MethodValue(sel); m != nil {
					nargs := append([]Val{recv.Pay}, args[1:]...)
					fr.callStatic(st, site, m, nargs, depth, k)
					return
				}
			}
		}
		// interface contract
		ik := TypeKey(c.Value.Type()) + "." + c.Method.Name()
		if ctr := ex.DB.IfaceCtr[ik]; ctr != nil {
			fr.applyContract(st, site, ctr, nil, c.Signature(), args, k)
			return
		}
		fr.havocCall(st, site, "interface method "+ik, c.Signature(), args, k)
		return
	}
	switch f := ex.force(st, fnv).(type) {
	case *FuncV:
		if strings.HasPrefix(f.Name, "builtin:") {
			fr.builtin(st, site, c, strings.TrimPrefix(f.Name, "builtin:"), args, k)
			return
		}
		if fn, ok := f.Fn.(*ssa.Function); ok && fn != nil {
			if len(f.Free) > 0 {
				fr.callClosure(st, site, fn, f.Free, args, depth, k)
				return
			}
			fr.callStatic(st, site, fn, args, depth, k)
			return
		}
		fr.oblige(st, "nil", fr.ordOf(site)+"f", Not(f.Nil), nil, "call of non-nil function value")
		st.assume(Not(f.Nil))
		fr.havocCall(st, site, "function value "+f.Name, c.Signature(), args, k)
		return
	}
	panic(abortf("call of %T", fnv))
}

func inRepo(fn *ssa.Function) bool {
	p := ""
	if fn.Pkg != nil {
		p = fn.Pkg.Pkg.Path()
	} else if o := fn.Object(); o != nil && o.Pkg() != nil {
		p = o.Pkg().Path()
	} else if fn.Parent() != nil {
		return inRepo(fn.Parent())
	} else if fn.Origin() != nil {
		return inRepo(fn.Origin())
	}
	return strings.HasPrefix(p, repoModule)
}

func (fr *FnRun) callStatic(st *State, site ssa.Instruction, fn *ssa.Function, args []Val, depth int, k callK) {
	ex := fr.ex
	key := FuncKey(fn)
	if fr.intrinsic(st, site, key, args, k) {
		return
	}
	ctr := ex.DB.Contracts[key]
	if ctr != nil && fr.ctr != nil && fn.Blocks != nil {
		// `unfold <callee>` in the contract of the function under verification: the callee's body is
		// executed at this call; a recursive call from inside that body is replaced by the callee's
		// contract (induction hypothesis of a proof by structural induction)
		for _, u := range fr.ctr.Unfold {
			if sk := ShortKey(key); sk == u || strings.HasSuffix(sk, u) {
				inside := false
				for _, f := range st.inl {
					if f == fn {
						inside = true
					}
				}
				if inside {
					ex.Assumptions["recursive call of "+sk+" inside its unfolded body is replaced by its contract (induction hypothesis; termination of the recursion is argued, not checked)"] = true
					fr.applyContract(st, site, ctr, fn, fn.Signature, args, k)
				} else {
					fr.inlineBody(st, fn, args, nil, depth+1, k)
				}
				return
			}
		}
	}
	if ctr != nil && ctr.Flags["inline"] != "" {
		// a function inlined by contract flag that calls itself: the recursive call is replaced by
		// its contract (the induction hypothesis of a proof by structural induction)
		for _, f := range st.inl {
			if f == fn {
				ex.Assumptions["recursive call of "+ShortKey(key)+" inside its own inlined body is replaced by its contract (induction hypothesis; termination of the recursion is argued, not checked)"] = true
				fr.applyContract(st, site, ctr, fn, fn.Signature, args, k)
				return
			}
		}
	}
	if ctr != nil && ctr.Flags["inline"] == "" {
		fr.applyContract(st, site, ctr, fn, fn.Signature, args, k)
		return
	}
	if o := fn.Origin(); o != nil && ctr == nil && !inRepo(o) {
		// instance of a generic function of a dependency: unspecified callee with the instantiated signature
		fr.havocCall(st, site, ShortKey(key), fn.Signature, args, k)
		return
	}
	if fn.Blocks != nil && (ctr != nil || fn.Synthetic != "" || (inRepo(fn) && ex.autoInline(fn))) {
		if depth > 12 {
			panic(abortf("inline depth exceeded at %s", ShortKey(key)))
		}
		fr.inlineBody(st, fn, args, nil, depth+1, k)
		return
	}
	if fn.Blocks == nil && fn.Synthetic == "" && key == "" {
		panic(abortf("call to function without body or contract: %s", fn))
	}
	fr.havocCall(st, site, ShortKey(key), fn.Signature, args, k)
}

// autoInline: tiny leaf-ish repository functions without contracts are inlined.
func (ex *Exec) autoInline(fn *ssa.Function) bool {
	n := 0
	for _, b := range fn.Blocks {
		n += len(b.Instrs)
	}
	if n > 40 {
		return false
	}
	for _, b := range fn.Blocks {
		for _, s := range b.Succs {
			if s.Dominates(b) {
				return false // has a loop
			}
		}
	}
	return true
}

func (fr *FnRun) callClosure(st *State, site ssa.Instruction, fn *ssa.Function, free []Val, args []Val, depth int, k callK) {
	ex := fr.ex
	key := FuncKey(fn)
	if ctr := ex.DB.Contracts[key]; ctr != nil && ctr.Flags["inline"] == "" {
		// the contract of a closure names its captured variables
		fr.extraEnv = map[string]Val{}
		for i, fv := range fn.FreeVars {
			if i < len(free) {
				fr.extraEnv[fv.Name()] = free[i]
			}
		}
		fr.applyContract(st, site, ctr, fn, fn.Signature, args, k)
		return
	}
	if depth > 12 {
		panic(abortf("inline depth exceeded at closure %s", ShortKey(key)))
	}
	fr.inlineBody(st, fn, args, free, depth+1, k)
}

// inlineBody executes the callee's body on the caller's state.
func (fr *FnRun) inlineBody(st *State, fn *ssa.Function, args []Val, free []Val, depth int, k callK) {
	if len(args) != len(fn.Params) {
		panic(abortf("inline %s: %d args for %d params", fn.Name(), len(args), len(fn.Params)))
	}
	callerVals := st.vals
	callerDefers := st.defers
	st.vals = map[ssa.Value]Val{}
	st.defers = nil
	for i, p := range fn.Params {
		st.vals[p] = args[i]
	}
	for i, fv := range fn.FreeVars {
		if i < len(free) {
			st.vals[fv] = free[i]
		}
	}
	st.note("call " + fn.Name())
	st.inl = append(st.inl[:len(st.inl):len(st.inl)], fn)
	fr.runBlock(st, fn.Blocks[0], nil, depth, func(st2 *State, results []Val) {
		if n := len(st2.inl); n > 0 {
			st2.inl = st2.inl[: n-1 : n-1]
		}
		nv := make(map[ssa.Value]Val, len(callerVals))
		for kk, vv := range callerVals {
			nv[kk] = vv
		}
		st2.vals = nv
		st2.defers = callerDefers
		st2.note("ret " + fn.Name())
		var res Val
		switch len(results) {
		case 0:
			res = &TupleV{}
		case 1:
			res = results[0]
		default:
			res = &TupleV{E: results}
		}
		k(st2, res)
	})
}

// havocCall: a callee about which nothing is known: everything reachable
// from its pointer arguments is havocked and the result is unconstrained.
func (fr *FnRun) havocCall(st *State, site ssa.Instruction, what string, sig *types.Signature, args []Val, k callK) {
	ex := fr.ex
	var oldSt *State
	hasRecv := sig.Recv() != nil
	if _, _, ok := stickySig(sig, hasRecv); ok {
		oldSt = st.clone()
	}
	noEffect := false
	for _, p := range ex.DB.NoEffect {
		if strings.HasPrefix(what, p) {
			noEffect = true
		}
	}
	if !noEffect {
		for _, a := range args {
			fr.havocReachable(st, a, map[*Obj]bool{})
		}
		ex.Assumptions["unspecified callee "+what+": arguments' reachable state havocked, result unconstrained"] = true
	} else {
		ex.Assumptions["callee "+what+" assumed to have no effect on modelled state; result unconstrained"] = true
	}
	st.note("havoc " + what)
	res := fr.freshResult(st, sig, what)
	var results []Val
	if tv, ok := res.(*TupleV); ok {
		results = tv.E
	} else {
		results = []Val{res}
	}
	if oldSt != nil {
		fr.assumeSticky(st, oldSt, sig, args, results, what, hasRecv)
	}
	k(st, res)
}

func (fr *FnRun) freshResult(st *State, sig *types.Signature, what string) Val {
	ex := fr.ex
	rs := sig.Results()
	base := ex.fresh("r_" + sanitize(lastSeg(what)))
	switch rs.Len() {
	case 0:
		return &TupleV{}
	case 1:
		v := ex.freshVal(rs.At(0).Type(), base)
		ex.assumeValid(st, v, rs.At(0).Type(), 0)
		return v
	}
	tv := &TupleV{}
	for i := 0; i < rs.Len(); i++ {
		v := ex.freshVal(rs.At(i).Type(), fmt.Sprintf("%s.%d", base, i))
		ex.assumeValid(st, v, rs.At(i).Type(), 0)
		tv.E = append(tv.E, v)
	}
	return tv
}

func lastSeg(s string) string {
	if i := strings.LastIndexAny(s, "/ "); i >= 0 {
		return s[i+1:]
	}
	return s
}

// havocReachable replaces the content of every object reachable from v.
func (fr *FnRun) havocReachable(st *State, v Val, seen map[*Obj]bool) {
	ex := fr.ex
	switch x := v.(type) {
	case *PtrV:
		if x.Obj == nil {
			return
		}
		if len(x.Path) > 0 {
			// pointer into an object: only that location (and what it reaches) is affected
			cur := ex.load(st, x)
			fr.havocReachable(st, cur, seen)
			nv := ex.freshVal(x.Elem, ex.fresh(x.Obj.Name+".sub"))
			ex.store(st, x, nv)
			return
		}
		if seen[x.Obj] {
			return
		}
		seen[x.Obj] = true
		cur, ok := st.heap[x.Obj]
		if ok {
			fr.havocReachable(st, cur, seen)
		}
		st.checkWrite(x.Obj)
		st.heap[x.Obj] = ex.materialise(x.Obj, ex.fresh(x.Obj.Name))
		ex.assumeValid(st, &PtrV{Nil: tFalse, Obj: x.Obj, Elem: x.Obj.T}, types.NewPointer(x.Obj.T), 0)
	case *SliceV:
		if x.Arr == nil || seen[x.Arr] {
			return
		}
		seen[x.Arr] = true
		if x.ViewW > 0 {
			fr.havocView(st, x)
			return
		}
		av := fr.arrOf(st, x)
		fr.setArr(st, x, &ArrayV{Elem: av.Elem, N: av.N, Data: ex.freshArrData(av.Elem, ex.fresh(x.Arr.Name))})
	case *StructV:
		for _, f := range x.F {
			fr.havocReachable(st, f, seen)
		}
	case *IfaceV:
		if x.Pay != nil {
			fr.havocReachable(st, x.Pay, seen)
		}
		if x.Obj != nil && !seen[x.Obj] {
			seen[x.Obj] = true
			st.heap[x.Obj] = ex.ghostStruct(x.Obj.T, ex.fresh(x.Obj.Name))
		}
	case *FuncV:
		fn, _ := x.Fn.(*ssa.Function)
		for i, f := range x.Free {
			// a captured variable's cell can only be reassigned by the closure's own code
			if p, ok := f.(*PtrV); ok && fn != nil && i < len(fn.FreeVars) && p.Obj != nil && len(p.Path) == 0 && !storesToFreeVar(fn, fn.FreeVars[i]) {
				if cur, ok := st.heap[p.Obj]; ok {
					fr.havocReachable(st, cur, seen)
				} else {
					fr.havocReachable(st, ex.heapGet(st, p.Obj), seen)
				}
				continue
			}
			fr.havocReachable(st, f, seen)
		}
		if x.Recv != nil {
			fr.havocReachable(st, x.Recv, seen)
		}
	case *MapV:
		if x.Obj != nil && !seen[x.Obj] {
			seen[x.Obj] = true
			delete(st.heap, x.Obj)
			st.heap[x.Obj] = ex.freshMap(x, ex.fresh(x.Obj.Name))
		}
	case *TupleV:
		for _, e := range x.E {
			fr.havocReachable(st, e, seen)
		}
	}
}

// ghostStruct: the ghost-only state of an opaque object (interface values of unknown dynamic type).
func (ex *Exec) ghostStruct(t types.Type, name string) *StructV {
	sv := &StructV{T: t}
	add := func(gs []*GhostField) {
		for _, g := range gs {
			if sv.Ghost == nil {
				sv.Ghost = map[string]Val{}
			}
			if _, dup := sv.Ghost[g.Name]; dup {
				continue
			}
			srt, err := sortByName(ghostSortName(t, g.Sort))
			if err != nil {
				panic(err)
			}
			gv := Var(name+"."+g.Name, srt)
			if g.Sort == "Bytes" {
				kk := Var("k!r", SInt)
				ex.varFacts[gv.Name] = Forall([]*Term{kk}, And(Le(Int(0), Select(gv, kk)), Lt(Select(gv, kk), Int(256))), Select(gv, kk))
			}
			sv.Ghost[g.Name] = gv
		}
	}
	add(ex.DB.Ghosts[TypeKey(t)])
	// an interface value also carries the ghost state of every declared interface it implements
	// (a net.Conn is an io.Reader and an io.Writer)
	if it, ok := under(t).(*types.Interface); ok {
		var keys []string
		for k := range ex.DB.Ghosts {
			keys = append(keys, k)
		}
		sort.Strings(keys)
		for _, k := range keys {
			if k == TypeKey(t) {
				continue
			}
			if other := ex.lookupInterface(k); other != nil && types.Implements(it, other) {
				add(ex.DB.Ghosts[k])
			}
		}
	}
	return sv
}

// ghostSortName resolves a ghost sort that mentions a type parameter of the declaring generic type
// (e.g. `Arr_U_T` on ColumnOf[T]) for an instance of that type: ColumnOf[K] gives Arr_U_K, a scalar
// type argument gives its SMT sort, anything else an uninterpreted sort named after the type.
func ghostSortName(t types.Type, sortName string) string {
	i := strings.Index(sortName, "U_")
	if i < 0 {
		return sortName
	}
	nt, ok := types.Unalias(t).(*types.Named)
	if !ok || nt.TypeArgs() == nil || nt.Origin().TypeParams() == nil {
		return sortName
	}
	pname := sortName[i+2:]
	tps := nt.Origin().TypeParams()
	for j := 0; j < tps.Len() && j < nt.TypeArgs().Len(); j++ {
		if tps.At(j).Obj().Name() != pname {
			continue
		}
		arg := nt.TypeArgs().At(j)
		if s, ok := scalarSort(arg); ok {
			switch s {
			case SInt:
				return sortName[:i] + "Int"
			case SBool:
				return sortName[:i] + "Bool"
			}
			return sortName[:i] + string(s)
		}
		return sortName[:i] + "U_" + sanitize(arg.String())
	}
	return sortName
}

// lookupInterface resolves "pkgpath.Name" to an interface type of the loaded program.
func (ex *Exec) lookupInterface(key string) *types.Interface {
	i := strings.LastIndex(key, ".")
	if i < 0 {
		return nil
	}
	sp := ex.P.ByPkg[key[:i]]
	if sp == nil {
		return nil
	}
	obj := sp.Pkg.Scope().Lookup(key[i+1:])
	if obj == nil {
		return nil
	}
	it, _ := under(obj.Type()).(*types.Interface)
	return it
}

// ---------------------------------------------------------------------------
// contracts at call sites

func (fr *FnRun) bindContractEnv(ctr *Contract, fn *ssa.Function, sig *types.Signature, args []Val) map[string]Val {
	env := map[string]Val{}
	for k, v := range fr.extraEnv {
		env[k] = v
	}
	fr.extraEnv = nil
	i := 0
	if ctr.Iface {
		for j, n := range ctr.Params {
			if j < len(args) {
				env[n] = args[j]
			}
		}
		return env
	}
	if sig.Recv() != nil {
		name := ctr.RecvName
		if name == "" {
			name = "recv"
		}
		if len(args) > 0 {
			env[name] = args[0]
		}
		i = 1
	}
	for j, n := range ctr.Params {
		if i+j < len(args) {
			env[n] = args[i+j]
		}
	}
	return env
}

func (fr *FnRun) applyContract(st *State, site ssa.Instruction, ctr *Contract, fn *ssa.Function, sig *types.Signature, args []Val, k callK) {
	ex := fr.ex
	vars := fr.bindContractEnv(ctr, fn, sig, args)
	callee := ShortKey(ctr.Key)
	env := &Env{st: st, old: st, vars: vars, fr: fr, pkg: ctr.Pkg, args: vars}
	for i, rq := range ctr.Requires {
		t := fr.evalBool(rq.E, env)
		for j, c := range conjuncts(t) {
			d := fmt.Sprintf("%s:%s:%d", fr.ordOf(site), callee, i+1)
			if len(conjuncts(t)) > 1 {
				d += fmt.Sprintf(".%d", j+1)
			}
			fr.oblige(st, "pre", d, c, rq, "precondition of "+callee+": "+rq.Src)
			st.assume(c)
		}
	}
	if ctr.Assumed {
		ex.Assumptions["assumed contract: "+callee] = true
	}
	old := st.clone()
	freshMark := ex.counter
	// frame
	if ctr.ModAll {
		for _, a := range args {
			fr.havocReachable(st, a, map[*Obj]bool{})
		}
	}
	for _, m := range ctr.Modifies {
		fr.havocLoc(st, m, &Env{st: old, old: old, vars: vars, fr: fr, pkg: ctr.Pkg, args: vars})
	}
	// results
	rs := sig.Results()
	var results []Val
	base := ex.fresh("r_" + sanitize(lastSeg(callee)))
	for i := 0; i < rs.Len(); i++ {
		nm := fmt.Sprintf("%s.%d", base, i)
		if i < len(ctr.Results) {
			nm = base + "." + ctr.Results[i]
		}
		v := ex.deepForce(st, ex.freshVal(rs.At(i).Type(), nm), 0)
		ex.assumeValid(st, v, rs.At(i).Type(), 0)
		results = append(results, v)
	}
	post := map[string]Val{}
	for kk, vv := range vars {
		post[kk] = vv
	}
	for i, r := range results {
		if i < len(ctr.Results) {
			post[ctr.Results[i]] = r
		}
	}
	if len(results) == 1 {
		post["result"] = results[0]
	}
	penv := &Env{st: st, old: old, vars: post, fr: fr, pkg: ctr.Pkg, args: vars, assuming: true}
	fr.bindLets(st, ctr, penv)
	// alias clauses `res == E` for reference-typed results bind the result instead of being assumed
	skip := map[*Clause]bool{}
	for _, en := range ctr.Ensures {
		if en.E.Kind == "bin" && en.E.Op == "==" && en.E.X.Kind == "ident" {
			for i, rn := range ctr.Results {
				if rn == en.E.X.Name && i < len(results) {
					if _, scalar := results[i].(*Term); !scalar {
						v := ex.force(st, fr.eval(en.E.Y, penv))
						if _, isNil := v.(nilMarker); !isNil {
							results[i] = v
							post[rn] = v
							if len(results) == 1 {
								post["result"] = v
							}
							skip[en] = true
						}
					}
				}
			}
		}
	}
	lightCallee := false
	if fr.ctr != nil {
		for _, l := range fr.ctr.Light {
			if strings.HasSuffix(callee, l) {
				lightCallee = true
			}
		}
	}
	for _, en := range ctr.Ensures {
		if skip[en] || en.Internal {
			continue
		}
		if lightCallee && len(en.Props) > 0 {
			continue
		}
		t := fr.evalBool(en.E, penv)
		if t.IsFalse() {
			panic(abortf("postcondition of %s evaluates to false at this call: %s", callee, en.Src))
		}
		st.assume(t)
	}
	for _, cs := range ctr.Cases {
		var pre []*Term
		for _, rq := range cs.Requires {
			pre = append(pre, fr.evalBool(rq.E, &Env{st: old, old: old, vars: vars, fr: fr, pkg: ctr.Pkg, args: vars}))
		}
		for _, en := range cs.Ensures {
			st.assume(Implies(And(pre...), fr.evalBool(en.E, penv)))
		}
	}
	// equality propagation for scalars defined by the postconditions
	if os.Getenv("GOVC_NOPROP") == "" {
		propagated := map[string]bool{}
		isFresh := func(n string) bool { return freshSuffixAfter(n, freshMark) && !propagated[n] }
		for round := 0; round < 64; round++ {
			// one defining equation at a time, so that definitions mentioning each other stay consistent
			defs := map[string]*Term{}
			for _, f := range st.facts[len(old.facts):] {
				definingEquations(f, isFresh, defs)
				if len(defs) > 0 {
					break
				}
			}
			if len(defs) == 0 {
				break
			}
			one := map[string]*Term{}
			for k, v := range defs {
				one[k] = v
				propagated[k] = true
				break
			}
			st.propagate(one)
			seen := map[interface{}]Val{}
			for i := range results {
				results[i] = substVal(results[i], one, seen)
			}
		}
	}
	fr.assumeSticky(st, old, sig, args, results, callee, sig.Recv() != nil || ctr.Iface)
	st.note("contract " + callee)
	var res Val
	switch len(results) {
	case 0:
		res = &TupleV{}
	case 1:
		res = results[0]
	default:
		res = &TupleV{E: results}
	}
	k(st, res)
}

// bindLets evaluates the contract's `let` abbreviations in the post-state environment and binds
// each name to a fresh constant defined by an equation (never propagated, so clauses sharing a
// long position expression stay small).
func (fr *FnRun) bindLets(st *State, ctr *Contract, env *Env) {
	for _, l := range ctr.Lets {
		t, ok := fr.ex.force(env.st, fr.eval(l.E, env)).(*Term)
		if !ok {
			panic(abortf("let %s: not a scalar expression", l.Name))
		}
		c := Var(fr.ex.fresh("let!"+l.Name), t.Sort)
		st.assume(Eq(c, t))
		env.vars[l.Name] = c
	}
}

// havocLoc havocs one `modifies` location.  Supported forms:
//   x.f        field f of the struct x points to (real or ghost)
//   all(x)     everything reachable from x
//   contents(s) the elements of slice s
//   *p         the cell p points to
func (fr *FnRun) havocLoc(st *State, m *Expr, env *Env) {
	ex := fr.ex
	switch m.Kind {
	case "call":
		if m.X.Kind == "ident" && m.X.Name == "all" && len(m.Args) == 1 {
			fr.havocReachable(st, fr.eval(m.Args[0], env), map[*Obj]bool{})
			return
		}
		if m.X.Kind == "ident" && m.X.Name == "pointees" && len(m.Args) == 1 {
			// pointees(s): what the elements of the reference-typed slice s refer to (the slots of s
			// themselves stay): the objects of the elements read so far are havocked; elements read
			// later are fresh anyway
			v := ex.force(env.st, fr.eval(m.Args[0], env))
			if sv, ok := v.(*SliceV); ok && sv.Arr != nil {
				if av, ok := st.heap[sv.Arr].(*ArrayV); ok {
					if ra, ok := av.Data.(*RefArr); ok {
						seen := map[*Obj]bool{}
						var ks []string
						for kk := range ra.Known {
							ks = append(ks, kk)
						}
						sort.Strings(ks)
						for _, kk := range ks {
							fr.havocReachable(st, ra.Known[kk], seen)
						}
					}
				}
				return
			}
			panic(abortf("modifies pointees(%s): not a slice", m.Args[0]))
		}
		if m.X.Kind == "ident" && m.X.Name == "contents" && len(m.Args) == 1 {
			v := ex.force(env.st, fr.eval(m.Args[0], env))
			if mv, isMap := v.(*MapV); isMap {
				if !mv.Nil.IsTrue() && mv.Obj != nil {
					st.heap[mv.Obj] = ex.freshMap(mv, ex.fresh(mv.Obj.Name))
				}
				return
			}
			if pv, isPtr := v.(*PtrV); isPtr {
				// a captured variable (cell) holding a slice
				v = ex.force(env.st, ex.load(env.st, pv))
			}
			s, ok := v.(*SliceV)
			if !ok {
				panic(abortf("modifies contents(%s): not a slice (%T)", m.Args[0], v))
			}
			fr.havocSliceContents(st, s)
			return
		}
	case "un":
		if m.Op == "*" {
			p, ok := fr.eval(m.X, env).(*PtrV)
			if !ok {
				panic(abortf("modifies *%s: not a pointer", m.X))
			}
			cur := ex.load(st, p)
			_ = cur
			ex.store(st, p, ex.freshVal(p.Elem, ex.fresh(p.Obj.Name)))
			return
		}
	case "sel":
		base := ex.force(env.st, fr.eval(m.X, env))
		// ghost state reached through interface values / delegation
		if hp, ho := fr.ghostHolder(st, base, m.Name); ho != nil {
			gs := ex.heapGet(st, ho).(*StructV)
			ng := &StructV{T: gs.T, Ghost: map[string]Val{}}
			for kk, vv := range gs.Ghost {
				ng.Ghost[kk] = vv
			}
			old, ok := ng.Ghost[m.Name].(*Term)
			if !ok {
				panic(abortf("modifies %s: no ghost field %s", m, m.Name))
			}
			ng.Ghost[m.Name] = Var(ex.fresh(ho.Name+"."+m.Name), old.Sort)
			st.heap[ho] = ng
			return
		} else if hp != nil {
			base = hp
		}
		p, ok := base.(*PtrV)
		if !ok {
			panic(abortf("modifies %s: base is not a pointer (%T)", m, base))
		}
		sv, ok := ex.load(st, p).(*StructV)
		if !ok {
			panic(abortf("modifies %s: base does not point to a struct", m))
		}
		if g, ok := sv.Ghost[m.Name]; ok {
			ng := &StructV{T: sv.T, F: sv.F, Ghost: map[string]Val{}}
			for kk, vv := range sv.Ghost {
				ng.Ghost[kk] = vv
			}
			ng.Ghost[m.Name] = Var(ex.fresh(p.Obj.Name+"."+m.Name), g.(*Term).Sort)
			ex.store(st, p, ng)
			return
		}
		stt := under(sv.T).(*types.Struct)
		for i := 0; i < stt.NumFields(); i++ {
			if stt.Field(i).Name() == m.Name {
				nv := ex.freshVal(stt.Field(i).Type(), ex.fresh(p.Obj.Name+"."+m.Name))
				ex.store(st, &PtrV{Nil: tFalse, Obj: p.Obj, Path: appendPath(p.Path, PathElem{Field: i}), Elem: stt.Field(i).Type()}, nv)
				return
			}
		}
		panic(abortf("modifies %s: no such field", m))
	case "ident":
		// a slice or pointer parameter: its target
		v := ex.force(env.st, fr.eval(m, env))
		switch x := v.(type) {
		case *SliceV:
			fr.havocSliceContents(st, x)
			return
		case *PtrV:
			ex.store(st, x, ex.freshVal(x.Elem, ex.fresh(x.Obj.Name)))
			return
		}
	}
	panic(abortf("unsupported modifies location %q", m))
}

func (fr *FnRun) havocSliceContents(st *State, s *SliceV) {
	ex := fr.ex
	if s.Arr == nil {
		return
	}
	if s.ViewW > 0 {
		fr.havocView(st, s)
		return
	}
	av := fr.arrOf(st, s)
	// only the window [off, off+len) changes
	nd := ex.freshArrData(av.Elem, ex.fresh(s.Arr.Name))
	if ot, ok := av.Data.(*Term); ok {
		nt := nd.(*Term)
		k := Var("k!h", SInt)
		st.assume(Forall([]*Term{k}, Implies(Or(Lt(k, s.Off), Le(Add(s.Off, s.Len), k)), Eq(Select(nt, k), Select(ot, k))), Select(nt, k)))
	}
	fr.setArr(st, s, &ArrayV{Elem: av.Elem, N: av.N, Data: nd})
}

// ---------------------------------------------------------------------------
// defers

func (fr *FnRun) runDefers(st *State, depth int, k func(st *State)) {
	if len(st.defers) == 0 {
		k(st)
		return
	}
	d := st.defers[len(st.defers)-1]
	st.defers = st.defers[:len(st.defers)-1 : len(st.defers)-1]
	// callsite assertions on a deferred call are checked when it RUNS (the state immediately before
	// the deferred call, with the pending results of the function in scope)
	if d.site != nil {
		fr.siteArgs = d.args
		fr.checkCallSite(st, d.site, d.call)
		fr.siteArgs = nil
		fr.bumpCallCounters(st, d.site)
	}
	fr.callVal(st, nil, d.call, d.fnv, d.args, depth, func(st2 *State, _ Val) {
		fr.runDefers(st2, depth, k)
	})
}

// ---------------------------------------------------------------------------
// loops

func (fr *FnRun) loopEnter(st *State, li *loopInfo, head, prev *ssa.BasicBlock) bool {
	ex := fr.ex
	spec := li.spec
	if head.Parent() != fr.fn {
		if c := ex.DB.Contracts[FuncKey(head.Parent())]; c != nil {
			spec = ex.loopSpecFor(c, li.ordinal)
		}
	}
	if spec == nil && head.Parent() == fr.fn {
		spec = fr.defaultLoopSpec(li)
		li.spec = spec
	}
	if spec == nil {
		panic(abortf("loop %d of %s has no invariant", li.ordinal, ShortKey(FuncKey(head.Parent()))))
	}
	// phi values on entry
	var phis []*ssa.Phi
	for _, in := range head.Instrs {
		ph, ok := in.(*ssa.Phi)
		if !ok {
			break
		}
		phis = append(phis, ph)
	}
	idx := -1
	for i, p := range head.Preds {
		if p == prev {
			idx = i
		}
	}
	entryVals := map[*ssa.Phi]Val{}
	for _, ph := range phis {
		entryVals[ph] = fr.value(st, ph.Edges[idx])
	}
	// invariant holds on entry
	env := fr.loopEnv(st, spec, phis, entryVals)
	unevaluable := false
	for i, inv := range spec.Invariants {
		t, msg := fr.tryEvalBool(inv.E, env)
		if msg != "" {
			// the invariant mentions a name that exists in the function but has no single value here
			// (the loops were restructured): a failed obligation; a name that does not exist at all
			// any more is a contract out of date (UNDECIDED)
			if n := fr.staleName(msg); n != "" && fr.fn.Parent() == nil {
				panic(abortf("contract out of date: loop invariant mentions %q, which is not a parameter or local of the function any more", n))
			}
			fr.oblige(st, "inv-init", fmt.Sprintf("L%d:%d", li.ordinal, i+1), tFalse, inv, inv.Src+"   [cannot be evaluated at the loop entry: "+msg+"]")
			unevaluable = true
			continue
		}
		for j, c := range conjuncts(t) {
			fr.oblige(st, "inv-init", fmt.Sprintf("L%d:%d.%d", li.ordinal, i+1, j+1), c, inv, "")
		}
	}
	if unevaluable {
		return false
	}
	// havoc: phis and the loop's write set
	for _, ph := range phis {
		nm := ph.Comment
		if nm == "" {
			nm = ph.Name()
		}
		v := ex.freshVal(ph.Type(), ex.fresh(nm))
		st.vals[ph] = v
	}
	fr.havocLoopWrites(st, li, spec)
	fr.loopCallCounters(st, li)
	hv := map[*ssa.Phi]Val{}
	for _, ph := range phis {
		hv[ph] = st.vals[ph]
	}
	env2 := fr.loopEnv(st, spec, phis, hv)
	for _, inv := range spec.Invariants {
		st.assume(fr.evalBool(inv.E, env2))
	}
	// the index of a `range` loop over a slice, array or string length: go/ssa lowers it to
	// `i = phi[-1, i+1]; if i+1 < n` with n computed before the loop, so at the head i == -1 or
	// 0 <= i < n (a fact about the lowering, not a user invariant)
	for _, ph := range phis {
		if n := rangeLenOf(ph); n != nil {
			if nv, ok := st.vals[n].(*Term); ok {
				if iv, ok := st.vals[ph].(*Term); ok {
					ex.Assumptions["range loops: at the loop head the index is -1 or within [0, len) (go/ssa lowers `range` to i = phi[-1, i+1] guarded by i+1 < len)"] = true
					st.assume(Or(Eq(iv, Int(-1)), And(Le(Int(0), iv), Lt(iv, nv))))
					st.assume(Le(Int(-1), iv))
				}
			}
		}
	}
	st.note(fmt.Sprintf("loop L%d", li.ordinal))
	if spec.Decreases != nil {
		st.vals[decKey(li)] = fr.evalTerm(spec.Decreases, env2)
	}
	return true
}

// rangeLenOf: for the index phi of a lowered range loop, the length value it is compared with.
func rangeLenOf(ph *ssa.Phi) ssa.Value {
	if ph.Comment != "rangeindex" || len(ph.Edges) < 2 {
		return nil
	}
	// edges: the constant -1 from the entry, and the same i+1 from every back edge (`continue`)
	var inc *ssa.BinOp
	for _, e := range ph.Edges {
		if c, ok := e.(*ssa.Const); ok {
			if c.Int64() != -1 {
				return nil
			}
			continue
		}
		b, ok := e.(*ssa.BinOp)
		if !ok || b.Op != token.ADD || b.X != ssa.Value(ph) {
			return nil
		}
		if c, ok := b.Y.(*ssa.Const); !ok || c.Int64() != 1 {
			return nil
		}
		if inc != nil && inc != b {
			return nil
		}
		inc = b
	}
	if inc == nil || inc.Referrers() == nil {
		return nil
	}
	for _, r := range *inc.Referrers() {
		if cmp, ok := r.(*ssa.BinOp); ok && cmp.Op == token.LSS && cmp.X == ssa.Value(inc) {
			// the bound is computed outside the loop (before the head)
			if in, ok := cmp.Y.(ssa.Instruction); ok && in.Block() != nil && in.Block().Dominates(ph.Block()) && in.Block() != ph.Block() {
				return cmp.Y
			}
			if _, ok := cmp.Y.(*ssa.Const); ok {
				return cmp.Y
			}
		}
	}
	return nil
}

type decMarker struct {
	ssa.Value
	li *loopInfo
}

var decKeys = map[*loopInfo]*ssa.Parameter{}

func decKey(li *loopInfo) ssa.Value {
	if k, ok := decKeys[li]; ok {
		return k
	}
	k := &ssa.Parameter{}
	decKeys[li] = k
	return k
}

func (fr *FnRun) loopEnv(st *State, spec *LoopSpec, phis []*ssa.Phi, vals map[*ssa.Phi]Val) *Env {
	vars := map[string]Val{}
	for k, v := range fr.env0 {
		vars[k] = v
	}
	// loop-carried locals by source name, positional fallback via spec.Names
	for i, ph := range phis {
		if ph.Comment != "" {
			vars[ph.Comment] = vals[ph]
		}
		if i < len(spec.Names) && spec.Names[i] != "_" {
			vars[spec.Names[i]] = vals[ph]
		}
	}
	if ri, _, ok := stickySig(fr.fn.Signature, true); ok {
		vars["sticky_r"] = fr.entry.vals[fr.fn.Params[ri]]
	}
	fr.bindLocals(st, vars)
	return &Env{st: st, old: fr.entry, vars: vars, fr: fr, pkg: fr.envPkgOf()}
}

func (fr *FnRun) envPkgOf() string {
	if fr.fn != nil && fr.fn.Pkg != nil {
		return fr.fn.Pkg.Pkg.Path()
	}
	return ""
}

func (fr *FnRun) loopBack(st *State, li *loopInfo, head, prev *ssa.BasicBlock) {
	ex := fr.ex
	spec := li.spec
	if head.Parent() != fr.fn {
		if c := ex.DB.Contracts[FuncKey(head.Parent())]; c != nil {
			spec = ex.loopSpecFor(c, li.ordinal)
		}
	}
	var phis []*ssa.Phi
	for _, in := range head.Instrs {
		ph, ok := in.(*ssa.Phi)
		if !ok {
			break
		}
		phis = append(phis, ph)
	}
	idx := -1
	for i, p := range head.Preds {
		if p == prev {
			idx = i
		}
	}
	vals := map[*ssa.Phi]Val{}
	for _, ph := range phis {
		vals[ph] = fr.value(st, ph.Edges[idx])
	}
	env := fr.loopEnv(st, spec, phis, vals)
	for i, inv := range spec.Invariants {
		t := fr.evalBool(inv.E, env)
		for j, c := range conjuncts(t) {
			fr.oblige(st, "inv-pres", fmt.Sprintf("L%d:%d.%d", li.ordinal, i+1, j+1), c, inv, "")
		}
	}
	if spec.Decreases != nil {
		before, ok := st.vals[decKey(li)].(*Term)
		if ok {
			after := fr.evalTerm(spec.Decreases, env)
			fr.oblige(st, "dec", fmt.Sprintf("L%d", li.ordinal), And(Lt(after, before), Le(Int(0), before)), nil, "loop variant decreases and is bounded below: "+spec.Decreases.String())
		}
	}
}

// havocLoopWrites havocs the heap locations the loop body may write:
// the `modifies` list of the loop spec when present, otherwise a syntactic
// over-approximation (stores through addresses computed outside the loop are
// resolved; anything else aborts).
func (fr *FnRun) havocLoopWrites(st *State, li *loopInfo, spec *LoopSpec) {
	ex := fr.ex
	if spec.Unroll == -1 {
		fr.havocAll(st)
		return
	}
	if len(spec.Modifies) > 0 {
		vars := map[string]Val{}
		for kk, vv := range fr.env0 {
			vars[kk] = vv
		}
		fr.bindLocals(st, vars)
		env := &Env{st: st, old: fr.entry, vars: vars, fr: fr}
		pre := st.clone()
		env.st = pre
		idBefore := ex.objCount
		for _, m := range spec.Modifies {
			fr.havocLoc(st, m, env)
		}
		// local variables of this function that live in a cell declared BEFORE the loop and are stored
		// to, or handed to a call, inside the loop: the loop may change them, so they are havocked at
		// the head as well (the modifies clause cannot name them - they are not part of the caller's
		// state; hoisting a loop-local variable out of the loop is thereby analysed, not rejected)
		for _, al := range fr.loopWrittenLocalCells(li) {
			if pv, ok := st.vals[al].(*PtrV); ok && pv.Obj != nil {
				if now, had := st.heap[pv.Obj]; had {
					if before, hadBefore := pre.heap[pv.Obj]; hadBefore && before != now {
						continue // the modifies clause already names (part of) this cell: it is precise
					}
				}
				fr.havocAt(st, &PtrV{Nil: tFalse, Obj: pv.Obj, Elem: al.Type().(*types.Pointer).Elem()})
			}
		}
		// frame guard: inside the loop only the havocked objects (and objects created by the havoc or later) may be written
		g := &loopGuard{maxID: idBefore, ok: map[*Obj]bool{}, li: li}
		for o, v := range st.heap {
			if pv, had := pre.heap[o]; !had || pv != v {
				g.ok[o] = true
			}
		}
		st.guards = append(st.guards[:len(st.guards):len(st.guards)], g)
		return
	}
	for b := range li.blocks {
		for _, in := range b.Instrs {
			switch x := in.(type) {
			case *ssa.Store:
				root, ok := fr.addrRoot(st, li, x.Addr)
				if !ok {
					panic(abortf("loop L%d writes through a loop-variant address (%s); add a loop modifies clause", li.ordinal, x.Addr.Name()))
				}
				if root == nil {
					continue // local alloc inside loop
				}
				fr.havocAt(st, root)
			case *ssa.Call:
				fr.loopCallEffects(st, li, x.Common())
			case *ssa.Defer:
				panic(abortf("defer inside loop"))
			case *ssa.MapUpdate:
				if mv, ok := fr.tryValue(st, x.Map).(*MapV); ok && mv.Obj != nil {
					st.heap[mv.Obj] = ex.freshMap(mv, ex.fresh(mv.Obj.Name))
				} else {
					panic(abortf("loop L%d updates a loop-variant map", li.ordinal))
				}
			}
		}
	}
}

// loopWrittenLocalCells: Allocs of this function declared outside the loop whose address (or the
// address of a part of them) is the target of a Store or an argument of a call inside the loop.
func (fr *FnRun) loopWrittenLocalCells(li *loopInfo) []*ssa.Alloc {
	seen := map[*ssa.Alloc]bool{}
	var out []*ssa.Alloc
	var rootOf func(v ssa.Value) *ssa.Alloc
	rootOf = func(v ssa.Value) *ssa.Alloc {
		switch a := v.(type) {
		case *ssa.Alloc:
			return a
		case *ssa.FieldAddr:
			return rootOf(a.X)
		case *ssa.IndexAddr:
			return rootOf(a.X)
		}
		return nil
	}
	add := func(v ssa.Value) {
		if a := rootOf(v); a != nil && a.Parent() == fr.fn && !li.blocks[a.Block()] && !seen[a] {
			seen[a] = true
			out = append(out, a)
		}
	}
	var blocks []*ssa.BasicBlock
	for b := range li.blocks {
		blocks = append(blocks, b)
	}
	sort.Slice(blocks, func(i, j int) bool { return blocks[i].Index < blocks[j].Index })
	for _, b := range blocks {
		for _, in := range b.Instrs {
			switch x := in.(type) {
			case *ssa.Store:
				add(x.Addr)
			case ssa.CallInstruction:
				for _, a := range x.Common().Args {
					add(a)
				}
				if !x.Common().IsInvoke() {
					add(x.Common().Value)
				}
			}
		}
	}
	return out
}

func (fr *FnRun) tryValue(st *State, v ssa.Value) (res Val) {
	defer func() {
		if r := recover(); r != nil {
			if _, ok := r.(*abortErr); ok {
				res = nil
				return
			}
			panic(r)
		}
	}()
	return fr.ex.force(st, fr.value(st, v))
}

// addrRoot resolves the location an address value denotes, when it is
// computed from values defined outside the loop.  (nil, true) means a
// loop-local allocation.
func (fr *FnRun) addrRoot(st *State, li *loopInfo, addr ssa.Value) (*PtrV, bool) {
	switch a := addr.(type) {
	case *ssa.Alloc:
		if li.blocks[a.Block()] {
			return nil, true
		}
	case *ssa.FieldAddr:
		if li.blocks[a.Block()] {
			base, ok := fr.addrRoot(st, li, a.X)
			if !ok {
				return nil, false
			}
			if base == nil {
				return nil, true
			}
			return &PtrV{Nil: tFalse, Obj: base.Obj, Path: appendPath(base.Path, PathElem{Field: a.Field}), Elem: a.Type().(*types.Pointer).Elem()}, true
		}
	case *ssa.IndexAddr:
		if li.blocks[a.Block()] {
			if base, ok := fr.addrRoot(st, li, a.X); ok && base == nil {
				return nil, true // element of a loop-local array
			}
			// element of an array whose identity is loop-invariant: havoc the whole array
			switch v := fr.tryValue(st, a.X).(type) {
			case *SliceV:
				if v.Arr != nil {
					return &PtrV{Nil: tFalse, Obj: v.Arr, Elem: types.NewSlice(v.Elem)}, true
				}
			case *PtrV:
				return v, true
			}
			return nil, false
		}
	}
	if in, ok := addr.(ssa.Instruction); ok && li.blocks[in.Block()] {
		if _, isPhi := addr.(*ssa.Phi); !isPhi {
			// value computed in the loop: try evaluating its operands anyway (loads of loop-invariant pointers)
			if u, ok := addr.(*ssa.UnOp); ok {
				if base, ok2 := fr.addrRoot(st, li, u.X); ok2 && base != nil {
					if pv, ok3 := fr.ex.load(st, base).(*PtrV); ok3 {
						return pv, true
					}
				}
			}
		}
		return nil, false
	}
	v := fr.tryValue(st, addr)
	if p, ok := v.(*PtrV); ok && p.Obj != nil {
		return p, true
	}
	return nil, false
}

func (fr *FnRun) havocAt(st *State, p *PtrV) {
	ex := fr.ex
	if p.Obj.IsArr && len(p.Path) == 0 {
		if av, ok := ex.heapGet(st, p.Obj).(*ArrayV); ok {
			st.heap[p.Obj] = &ArrayV{Elem: av.Elem, N: av.N, Data: ex.freshArrData(av.Elem, ex.fresh(p.Obj.Name))}
			return
		}
	}
	nv := ex.freshVal(p.Elem, ex.fresh(p.Obj.Name))
	ex.store(st, p, nv)
}

// loopCallEffects havocs what a call inside a loop may modify.
func (fr *FnRun) loopCallEffects(st *State, li *loopInfo, c *ssa.CallCommon) {
	ex := fr.ex
	if c.IsInvoke() {
		if ic := ex.DB.IfaceCtr[TypeKey(c.Value.Type())+"."+c.Method.Name()]; ic != nil && len(ic.Modifies) == 0 && !ic.ModAll {
			return // specified interface method without effects
		}
		if v := fr.tryValue(st, c.Value); v != nil {
			fr.havocReachable(st, v, map[*Obj]bool{})
		} else {
			panic(abortf("loop L%d invokes a method on a loop-variant interface value; add a loop modifies clause", li.ordinal))
		}
		for _, a := range c.Args {
			if v := fr.tryValue(st, a); v != nil {
				fr.havocReachable(st, v, map[*Obj]bool{})
			}
		}
		return
	}
	if b, ok := c.Value.(*ssa.Builtin); ok {
		switch b.Name() {
		case "copy":
			if v, ok := fr.tryValue(st, c.Args[0]).(*SliceV); ok {
				fr.havocReachable(st, v, map[*Obj]bool{})
			} else {
				panic(abortf("loop L%d copies into a loop-variant slice", li.ordinal))
			}
		case "delete", "clear":
			if v := fr.tryValue(st, c.Args[0]); v != nil {
				fr.havocReachable(st, v, map[*Obj]bool{})
			}
		}
		return
	}
	var ctr *Contract
	if fn, ok := c.Value.(*ssa.Function); ok {
		key := FuncKey(fn)
		if strings.HasPrefix(key, "encoding/binary.(") && strings.Contains(key, ").Uint") {
			return // intrinsic read
		}
		ctr = ex.DB.Contracts[key]
		if ctr != nil && ctr.Flags["inline"] == "" && !ctr.ModAll {
			if len(ctr.Modifies) == 0 {
				return
			}
		}
		if ctr == nil && !inRepo(fn) {
			for _, p := range ex.DB.NoEffect {
				if strings.HasPrefix(ShortKey(FuncKey(fn)), p) {
					return
				}
			}
		}
	}
	// conservative: everything reachable from the arguments
	for _, a := range c.Args {
		v := fr.tryValue(st, a)
		if v == nil {
			// loop-variant argument (e.g. element of a column list): its reachable state cannot be named here
			if _, isPtrish := under(a.Type()).(*types.Basic); isPtrish {
				continue
			}
			panic(abortf("loop L%d passes a loop-variant reference to a call; add a loop modifies clause", li.ordinal))
		}
		fr.havocReachable(st, v, map[*Obj]bool{})
	}
}

// ghostHolder finds where ghost field `name` of `base` lives: either a pointer
// to a struct carrying it, or the opaque object of an interface value.
func (fr *FnRun) ghostHolder(st *State, base Val, name string) (*PtrV, *Obj) {
	ex := fr.ex
	base = ex.force(st, base)
	switch x := base.(type) {
	case *IfaceV:
		if x.Pay != nil {
			return fr.ghostHolder(st, x.Pay, name)
		}
		if x.Obj != nil {
			return nil, x.Obj
		}
	case *PtrV:
		if x.Obj == nil {
			return nil, nil
		}
		sv, ok := ex.load(st, x).(*StructV)
		if !ok {
			return nil, nil
		}
		if _, ok := sv.Ghost[name]; ok {
			return x, nil
		}
		if s, ok := under(sv.T).(*types.Struct); ok {
			for i := 0; i < s.NumFields(); i++ {
				if s.Field(i).Name() == name {
					return x, nil
				}
			}
			if d, ok := ex.DB.Delegates[TypeKey(sv.T)]; ok {
				for i := 0; i < s.NumFields(); i++ {
					if s.Field(i).Name() == d {
						fv := ex.load(st, &PtrV{Nil: tFalse, Obj: x.Obj, Path: appendPath(x.Path, PathElem{Field: i}), Elem: s.Field(i).Type()})
						return fr.ghostHolder(st, fv, name)
					}
				}
			}
		}
		return x, nil
	}
	return nil, nil
}

// storesToFreeVar: does fn (or a closure nested in it that captures the same cell) assign to the captured variable itself?
func storesToFreeVar(fn *ssa.Function, fv *ssa.FreeVar) bool {
	for _, b := range fn.Blocks {
		for _, in := range b.Instrs {
			switch x := in.(type) {
			case *ssa.Store:
				if x.Addr == ssa.Value(fv) {
					return true
				}
			case *ssa.MakeClosure:
				inner := x.Fn.(*ssa.Function)
				for i, bnd := range x.Bindings {
					if bnd == ssa.Value(fv) && i < len(inner.FreeVars) && storesToFreeVar(inner, inner.FreeVars[i]) {
						return true
					}
				}
			case *ssa.Call:
				// the cell's address escaping as an ordinary argument
				for _, a := range x.Common().Args {
					if a == ssa.Value(fv) {
						return true
					}
				}
			}
		}
	}
	return false
}

// deepForce materialises the lazily created fields of struct VALUES (not of pointees), so that
// later substitutions and merges see one consistent set of variables.
func (ex *Exec) deepForce(st *State, v Val, depth int) Val {
	if depth > 6 {
		return v
	}
	switch x := v.(type) {
	case *LazyV:
		return ex.deepForce(st, ex.force(st, x), depth+1)
	case *StructV:
		if x.F == nil {
			return x
		}
		n := &StructV{T: x.T, F: make([]Val, len(x.F)), Ghost: x.Ghost}
		for i, f := range x.F {
			n.F[i] = ex.deepForce(st, f, depth+1)
		}
		return n
	case *TupleV:
		n := &TupleV{E: make([]Val, len(x.E))}
		for i, e := range x.E {
			n.E[i] = ex.deepForce(st, e, depth+1)
		}
		return n
	}
	return v
}
