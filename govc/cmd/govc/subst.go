package main

// Equality propagation: when a callee's postcondition defines a freshly
// havocked scalar by an equation `v == T`, the variable is replaced by T
// everywhere in the state.  This keeps index terms syntactically aligned
// (`len'` becomes `len + n`), which is what the solvers' pattern matching needs.

import (
	"sort"
	"strings"
)

func substVal(v Val, m map[string]*Term, seen map[interface{}]Val) Val {
	if v == nil {
		return nil
	}
	switch x := v.(type) {
	case *Term:
		return Subst(x, m)
	case *StructV:
		if r, ok := seen[x]; ok {
			return r
		}
		n := &StructV{T: x.T}
		seen[x] = n
		changed := false
		if x.F != nil {
			n.F = make([]Val, len(x.F))
			for i, f := range x.F {
				n.F[i] = substVal(f, m, seen)
				if n.F[i] != f {
					changed = true
				}
			}
		}
		if x.Ghost != nil {
			n.Ghost = map[string]Val{}
			for k, g := range x.Ghost {
				n.Ghost[k] = substVal(g, m, seen)
				if n.Ghost[k] != g {
					changed = true
				}
			}
		}
		if !changed {
			seen[x] = x
			return x
		}
		return n
	case *PtrV:
		nn := Subst(x.Nil, m)
		np := x.Path
		pc := false
		for i, pe := range x.Path {
			if pe.Idx != nil {
				ni := Subst(pe.Idx, m)
				if ni != pe.Idx {
					if !pc {
						np = append([]PathElem(nil), x.Path...)
						pc = true
					}
					np[i] = PathElem{Idx: ni}
				}
			}
		}
		if nn == x.Nil && !pc {
			return x
		}
		return &PtrV{Nil: nn, Obj: x.Obj, Path: np, Elem: x.Elem, ViewOf: x.ViewOf, ViewIdx: x.ViewIdx}
	case *SliceV:
		n := &SliceV{Nil: Subst(x.Nil, m), Arr: x.Arr, Off: Subst(x.Off, m), Len: Subst(x.Len, m), Cap: Subst(x.Cap, m), Elem: x.Elem, ViewW: x.ViewW, ViewElem: x.ViewElem, Base: x.Base}
		if n.Nil == x.Nil && n.Off == x.Off && n.Len == x.Len && n.Cap == x.Cap {
			return x
		}
		return n
	case *StrV:
		n := &StrV{Arr: Subst(x.Arr, m), Len: Subst(x.Len, m)}
		if n.Arr == x.Arr && n.Len == x.Len {
			return x
		}
		return n
	case *ArrayV:
		nd := substArr(x.Data, m)
		if nd == x.Data {
			return x
		}
		return &ArrayV{Elem: x.Elem, N: x.N, Data: nd}
	case *IfaceV:
		nn := Subst(x.Nil, m)
		np := substVal(x.Pay, m, seen)
		if nn == x.Nil && np == x.Pay {
			return x
		}
		return &IfaceV{Nil: nn, Dyn: x.Dyn, Pay: np, Obj: x.Obj, T: x.T}
	case *MapV:
		nn := Subst(x.Nil, m)
		if nn == x.Nil {
			return x
		}
		return &MapV{Nil: nn, Obj: x.Obj, K: x.K, V: x.V}
	case *MapObjV:
		return &MapObjV{Has: Subst(x.Has, m), Val: substArr(x.Val, m), Len: Subst(x.Len, m)}
	case *TupleV:
		n := &TupleV{E: make([]Val, len(x.E))}
		for i, e := range x.E {
			n.E[i] = substVal(e, m, seen)
		}
		return n
	case *FuncV:
		nn := x.Nil
		if nn != nil {
			nn = Subst(x.Nil, m)
		}
		if nn == x.Nil {
			return x
		}
		return &FuncV{Nil: nn, Fn: x.Fn, Free: x.Free, Recv: x.Recv, Name: x.Name}
	}
	return v
}

func substArr(d ArrData, m map[string]*Term) ArrData {
	switch a := d.(type) {
	case *Term:
		return Subst(a, m)
	case *StructArr:
		n := &StructArr{T: a.T, F: make([]ArrData, len(a.F))}
		ch := false
		for i, f := range a.F {
			n.F[i] = substArr(f, m)
			if n.F[i] != f {
				ch = true
			}
		}
		if !ch {
			return a
		}
		return n
	case *NestedArr:
		nd := Subst(a.Data, m)
		if nd == a.Data {
			return a
		}
		return &NestedArr{T: a.T, Data: nd}
	case *RefArr:
		// memoised element reads are keyed by the index term: re-key under the substitution
		changed := false
		n := &RefArr{Elem: a.Elem, Base: a.Base, Dirty: a.Dirty, Ver: a.Ver, Known: map[string]Val{}, Idx: map[string]*Term{}, ElemInv: a.ElemInv}
		seen := map[interface{}]Val{}
		for k, v := range a.Known {
			nv := substVal(v, m, seen)
			nk := k
			if it, ok := a.Idx[k]; ok {
				ni := Subst(it, m)
				nk = ni.String()
				n.Idx[nk] = ni
			}
			if nk != k || nv != v {
				changed = true
			}
			n.Known[nk] = nv
		}
		if !changed {
			return a
		}
		return n
	}
	return d
}

// propagate applies the substitution to the whole state.
func (st *State) propagate(m map[string]*Term) {
	if len(m) == 0 {
		return
	}
	seen := map[interface{}]Val{}
	for o, v := range st.heap {
		nv := substVal(v, m, seen)
		if nv != v {
			st.heap[o] = nv
		}
	}
	for k, v := range st.vals {
		nv := substVal(v, m, seen)
		if nv != v {
			st.vals[k] = nv
		}
	}
	nf := make([]*Term, 0, len(st.facts))
	for _, f := range st.facts {
		g := Subst(f, m)
		if !g.IsTrue() {
			nf = append(nf, g)
		}
	}
	// the defining equations themselves stay among the facts: a lazily materialised field that is
	// forced only later re-creates the variable, which must still be tied to its definition
	var ks []string
	for k := range m {
		ks = append(ks, k)
	}
	sort.Strings(ks)
	for _, k := range ks {
		nf = append(nf, Eq(Var(k, m[k].Sort), m[k]))
	}
	st.facts = nf
}

func mentions(t *Term, name string) bool {
	if t.Op == "var" {
		return t.Name == name
	}
	if t.Op == "int" || t.Op == "bool" {
		return false
	}
	for _, a := range t.Args {
		if mentions(a, name) {
			return true
		}
	}
	return false
}

// definingEquations extracts v == T conjuncts where v is a variable created after mark `from`
// (its name carries a fresh counter > from) and T does not mention v.
func definingEquations(t *Term, isFresh func(string) bool, out map[string]*Term) {
	for _, c := range conjuncts(t) {
		if c.Op != "=" || len(c.Args) != 2 {
			continue
		}
		for _, pr := range [][2]*Term{{c.Args[0], c.Args[1]}, {c.Args[1], c.Args[0]}} {
			v, rhs := pr[0], pr[1]
			if v.Op == "var" && (v.Sort == SInt || v.Sort == SBool) && isFresh(v.Name) && !strings.HasPrefix(v.Name, "let!") && !mentions(rhs, v.Name) {
				if _, dup := out[v.Name]; !dup {
					ok := true
					for other := range out {
						if mentions(rhs, other) {
							ok = false
						}
					}
					if ok {
						out[v.Name] = rhs
					}
				}
				break
			}
		}
	}
}

func freshSuffixAfter(name string, from int) bool {
	i := strings.LastIndex(name, "!")
	if i < 0 {
		return false
	}
	// names look like base!N or base!N.field ; find the counter after the last '!'
	j := i + 1
	n := 0
	digits := 0
	for j < len(name) && name[j] >= '0' && name[j] <= '9' {
		n = n*10 + int(name[j]-'0')
		j++
		digits++
	}
	return digits > 0 && n > from
}
