package main

import (
	"fmt"
	"go/types"
)

// Val is a symbolic Go value:
//   *Term      scalars (ints, bools, floats as uninterpreted bit patterns)
//   *StructV   struct values (field-wise), also opaque types with ghost fields only
//   *PtrV      pointers to executor-level locations
//   *SliceV    slices over array objects
//   *StrV      strings
//   *ArrayV    Go array values [N]T
//   *IfaceV    interface values
//   *FuncV     functions and closures
//   *TupleV    multiple results
//   *MapV      maps
//   *OpaqueV   anything unmodelled (channels, unsafe pointers, ...)
//   *LazyV     not yet materialised symbolic content
type Val interface{}

type StructV struct {
	T     types.Type
	F     []Val
	Ghost map[string]Val
}

type PathElem struct {
	Field int   // >=0: struct field
	Idx   *Term // != nil: array element
}

type PtrV struct {
	Nil  *Term // Bool: pointer is nil
	Obj  *Obj
	Path []PathElem
	Elem types.Type
	// address of byte ViewIdx of a byte view (read-only)
	ViewOf  *SliceV
	ViewIdx *Term
}

type SliceV struct {
	Nil  *Term
	Arr  *Obj
	Off  *Term
	Len  *Term
	Cap  *Term
	Elem types.Type
	// ViewW > 0: this []byte is a byte view of an array whose elements are ViewW bytes wide
	ViewW    int
	ViewElem types.Type
	// Base: path from Arr's root value to the array (arrays embedded in structs)
	Base []PathElem
}

type StrV struct {
	Arr *Term // (Array Int Int)
	Len *Term
}

type ArrayV struct {
	Elem types.Type
	N    int64
	Data ArrData
}

type IfaceV struct {
	Nil *Term
	Dyn types.Type // nil: unknown dynamic type
	Pay Val
	Obj *Obj // identity for ghost state when the dynamic type is unknown
	T   types.Type
}

type FuncV struct {
	Nil  *Term
	Fn   interface{} // *ssa.Function when known
	Free []Val
	Recv Val // bound method receiver
	Name string
}

type TupleV struct{ E []Val }

type MapV struct {
	Nil *Term
	Obj *Obj
	K, V types.Type
}

type OpaqueV struct {
	T    types.Type
	Name string
}

type LazyV struct {
	T    types.Type
	Name string
}

// Obj is an executor-level heap object (struct cell, scalar cell, array, opaque).
type Obj struct {
	ID    int
	Name  string
	T     types.Type
	IsArr bool // backing array of slices; T is then []Elem
	Merged bool // created by state merging from two different backing arrays: no in-place writes
}

func (o *Obj) String() string { return fmt.Sprintf("%s#%d", o.Name, o.ID) }

// ArrData is the content of an array object:
//   *Term          scalar elements: (Array Int Int) or (Array Int Bool)
//   *StructArr     struct elements, one ArrData per field
//   *NestedArr     fixed-size array elements: (Array Int (Array Int Int))
//   *RefArr        reference elements (slices, strings, pointers, interfaces)
type ArrData interface{}

type StructArr struct {
	T types.Type
	F []ArrData
}

type NestedArr struct {
	T    *types.Array
	Data *Term // (Array Int (Array Int Int))
}

type RefArr struct {
	Elem   types.Type
	Base   string         // name prefix for memoised reads
	Known  map[string]Val // index term string -> value (reads and concrete writes)
	Idx    map[string]*Term // index term string -> index term (for re-keying under substitution)
	Dirty  bool           // a write at a symbolic index happened: reads are no longer memoised by base
	Ver    int
	// ElemInv: a fact assumed for every element materialised by a read (set by an assumed
	// `each(s, e, pred)` postcondition; dropped by a write at a symbolic index)
	ElemInv func(st *State, v Val)
}

func cloneRefArr(r *RefArr) *RefArr {
	n := &RefArr{Elem: r.Elem, Base: r.Base, Dirty: r.Dirty, Ver: r.Ver, Known: map[string]Val{}, Idx: map[string]*Term{}, ElemInv: r.ElemInv}
	for k, v := range r.Known {
		n.Known[k] = v
	}
	for k, v := range r.Idx {
		n.Idx[k] = v
	}
	return n
}

// MapObjV is the heap content of a map object with scalar keys.
type MapObjV struct {
	Has *Term // (Array K Bool)
	Val ArrData
	Len *Term
}

// CellRef is how a contract environment binds the name of a variable captured by a closure: the
// name denotes the variable's current value (loaded from its cell in the state the expression is
// evaluated in), not the cell.
type CellRef struct{ P *PtrV }
