package main

// Byte views of typed slices (the unsafe idiom of the *_unsafe*.go codecs).

func (fr *FnRun) viewByte(st *State, v *SliceV, i *Term) *Term {
	panic(abortf("byte view read unsupported"))
}

func (fr *FnRun) viewCopyFact(st *State, dstArr *Term, dstOff *Term, src *SliceV, n *Term) *Term {
	panic(abortf("copy from byte view unsupported"))
}

func (fr *FnRun) copyIntoView(st *State, dst *SliceV, src *SliceV, n *Term) {
	panic(abortf("copy into byte view unsupported"))
}
