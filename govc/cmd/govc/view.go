package main

// Byte views of typed slices: the unsafe idiom of the *_unsafe*.go codecs
//
//     s := *(*slice)(unsafe.Pointer(&v)); s.Len *= size; s.Cap *= size
//     b := *(*[]byte)(unsafe.Pointer(&s))
//
// is recognised as ONE primitive: b is a byte view of v's backing array
// (little-endian memory layout, guaranteed by the files' build constraint).
// A view never owns bytes: every use materialises the byte image B of the
// current typed content (B[e*W+j] = byte j of element e), and every write
// through the view defines the new typed content from the new image.

import (
	"fmt"
	"go/types"
	"math/big"
)

// sliceHeaderOf converts a loaded slice into the {Data, Len, Cap} header struct.
func (fr *FnRun) sliceHeaderOf(s *SliceV, hdr types.Type) *StructV {
	if s.ViewW > 0 {
		panic(abortf("slice header of a byte view"))
	}
	return &StructV{T: hdr, F: []Val{
		&unsafeV{Arr: s.Arr, Off: s.Off, Elem: s.Elem, OrigLen: s.Len, OrigCap: s.Cap, NilT: s.Nil},
		s.Len, s.Cap,
	}}
}

// viewOfHeader converts a header struct read back as []byte into a byte view.
func (fr *FnRun) viewOfHeader(st *State, h *StructV, to types.Type, site string) Val {
	u, ok := h.F[0].(*unsafeV)
	if !ok || u.Elem == nil {
		panic(abortf("reinterpreting a slice header whose Data is not a known array"))
	}
	sl, ok := under(to).(*types.Slice)
	if !ok {
		panic(abortf("slice header reinterpreted as %s", to))
	}
	if sz := fr.ex.sizeOf(sl.Elem()); sz != 1 {
		panic(abortf("slice header reinterpreted as slice of %d-byte elements", sz))
	}
	if isTypeParam(u.Elem) {
		// The element layout is unknown: the view is modelled as a separate byte array of the view's
		// length (contents unknown), the reinterpretation is still checked for memory safety against
		// size*cap0, and the typed array's contents become unknown (whatever is written through the
		// view is not reflected back: typed contents after such a view are never relied on - they are
		// havocked here and the function's contract must not state anything about them).
		l, c := h.F[1].(*Term), h.F[2].(*Term)
		sz := fr.sizeofTerm(st, u.Elem)
		// runtime invariant of every Go slice: its backing array fits in the address space, and its
		// length is within its capacity (monotonicity of the product is spelled out for the solver)
		st.assume(Lt(Mul(sz, u.OrigCap), IntB(new(big.Int).Lsh(big.NewInt(1), 63))))
		st.assume(And(Le(Int(0), Mul(sz, u.OrigLen)), Le(Mul(sz, u.OrigLen), Mul(sz, u.OrigCap))))
		fr.ex.Assumptions["a slice's backing array fits in the address space (size*cap < 2^63): Go runtime invariant, used for byte views of type-parameter slices"] = true
		goal := And(Le(Int(0), l), Le(l, c), Le(c, Mul(sz, u.OrigCap)))
		fr.oblige(st, "view", site, goal, nil, "reinterpreted slice stays inside the original array (len <= cap <= size*cap0)")
		st.assume(goal)
		fr.ex.Assumptions["byte view of a slice whose element type is a type parameter: modelled as a separate byte array of the same length, typed contents havocked (ColRawOf)"] = true
		if u.Arr != nil {
			if av, ok := st.heap[u.Arr].(*ArrayV); ok {
				st.heap[u.Arr] = &ArrayV{Elem: av.Elem, N: av.N, Data: fr.ex.freshArrData(av.Elem, fr.ex.fresh(u.Arr.Name+"!viewed"))}
			}
		}
		o := fr.ex.newObj(fr.ex.fresh("paramview"), types.NewSlice(sl.Elem()))
		o.IsArr = true
		st.heap[o] = &ArrayV{Elem: sl.Elem(), N: -1, Data: fr.ex.freshArrData(sl.Elem(), o.Name)}
		return &SliceV{Nil: u.NilT, Arr: o, Off: Int(0), Len: l, Cap: c, Elem: sl.Elem()}
	}
	w := fr.ex.sizeOf(u.Elem)
	if w <= 0 || w > 512 {
		panic(abortf("byte view of %s: unsupported element size %d", u.Elem, w))
	}
	l, c := h.F[1].(*Term), h.F[2].(*Term)
	// memory safety of the reinterpretation
	goal := And(Le(Int(0), l), Le(l, c), Le(c, Mul(Int(w), u.OrigCap)))
	fr.oblige(st, "view", site, goal, nil, "reinterpreted slice stays inside the original array (len <= cap <= size*cap0)")
	st.assume(goal)
	return &SliceV{Nil: u.NilT, Arr: u.Arr, Off: Mul(u.Off, Int(w)), Len: l, Cap: c, Elem: sl.Elem(), ViewW: int(w), ViewElem: u.Elem}
}

// layout: scalar leaves of an element type with their byte offsets.
type leaf struct {
	off  int64
	size int64
	t    types.Type
	path []int // field/array indices
}

func (ex *Exec) leaves(t types.Type, base int64, path []int) []leaf {
	switch u := under(t).(type) {
	case *types.Basic:
		return []leaf{{off: base, size: ex.sizeOf(t), t: t, path: append([]int(nil), path...)}}
	case *types.Struct:
		var out []leaf
		sizes := types.SizesFor("gc", "amd64")
		var fields []*types.Var
		for i := 0; i < u.NumFields(); i++ {
			fields = append(fields, u.Field(i))
		}
		offs := sizes.Offsetsof(fields)
		for i, f := range fields {
			out = append(out, ex.leaves(f.Type(), base+offs[i], append(path, i))...)
		}
		return out
	case *types.Array:
		var out []leaf
		es := ex.sizeOf(u.Elem())
		for i := int64(0); i < u.Len(); i++ {
			out = append(out, ex.leaves(u.Elem(), base+i*es, append(path, int(i)))...)
		}
		return out
	}
	panic(abortf("byte view over element type %s", t))
}

func valAt(ex *Exec, st *State, v Val, path []int) Val {
	for _, i := range path {
		switch x := ex.force(st, v).(type) {
		case *StructV:
			v = x.F[i]
		case *ArrayV:
			v = ex.readElem(st, x.Data, x.Elem, Int(int64(i)))
		default:
			panic(abortf("valAt: %T", x))
		}
	}
	return ex.force(st, v)
}

// scalarByte: byte j of a scalar leaf value.
func (fr *FnRun) scalarByte(v *Term, t types.Type, size int64, j int64) *Term {
	ex := fr.ex
	if isBool(t) {
		return Ite(v, Int(1), Int(0))
	}
	u := v
	if _, uns, ok := intBits(t); ok && !uns {
		u = wrapTo(v, uint(size*8), true)
	}
	if size == 1 {
		return u
	}
	bn, _ := ex.byteFns(int(size * 8))
	return App(bn, SInt, u, Int(j))
}

func (fr *FnRun) scalarFromBytes(t types.Type, size int64, bs []*Term) *Term {
	ex := fr.ex
	if isBool(t) {
		return Not(Eq(bs[0], Int(0)))
	}
	var u *Term
	if size == 1 {
		u = bs[0]
	} else {
		_, un := ex.byteFns(int(size * 8))
		u = App(un, SInt, bs...)
	}
	if _, uns, ok := intBits(t); ok && !uns {
		return wrapTo(u, uint(size*8), false)
	}
	return u
}

// elemBytes returns the W bytes of element value v.
func (fr *FnRun) elemBytes(st *State, v Val, t types.Type) []*Term {
	ex := fr.ex
	w := ex.sizeOf(t)
	out := make([]*Term, w)
	for _, lf := range ex.leaves(t, 0, nil) {
		lv, ok := valAt(ex, st, v, lf.path).(*Term)
		if !ok {
			panic(abortf("byte view: non-scalar leaf"))
		}
		for j := int64(0); j < lf.size; j++ {
			out[lf.off+j] = fr.scalarByte(lv, lf.t, lf.size, j)
		}
	}
	for i, b := range out {
		if b == nil {
			out[i] = Int(0) // padding
		}
	}
	return out
}

// elemFromBytes builds an element value of type t from its W bytes.
func (fr *FnRun) elemFromBytes(st *State, t types.Type, bs []*Term) Val {
	ex := fr.ex
	var build func(t types.Type, base int64) Val
	build = func(t types.Type, base int64) Val {
		switch u := under(t).(type) {
		case *types.Basic:
			sz := ex.sizeOf(t)
			return fr.scalarFromBytes(t, sz, bs[base:base+sz])
		case *types.Struct:
			sizes := types.SizesFor("gc", "amd64")
			var fields []*types.Var
			for i := 0; i < u.NumFields(); i++ {
				fields = append(fields, u.Field(i))
			}
			offs := sizes.Offsetsof(fields)
			sv := &StructV{T: t, F: make([]Val, len(fields))}
			for i, f := range fields {
				sv.F[i] = build(f.Type(), base+offs[i])
			}
			return sv
		case *types.Array:
			es := ex.sizeOf(u.Elem())
			s, ok := scalarSort(u.Elem())
			if !ok {
				panic(abortf("byte view over nested array of %s", u.Elem()))
			}
			ex.ensureZeros(s)
			arr := App("zeros_"+sortTag(s), ArrSort(SInt, s))
			for i := int64(0); i < u.Len(); i++ {
				arr = Store(arr, Int(i), build(u.Elem(), base+i*es).(*Term))
			}
			return &ArrayV{Elem: u.Elem(), N: u.Len(), Data: arr}
		}
		panic(abortf("byte view over element type %s", t))
	}
	return build(t, 0)
}

func arrDataKey(d ArrData) string {
	switch a := d.(type) {
	case *Term:
		return a.String()
	case *StructArr:
		s := "{"
		for _, f := range a.F {
			s += arrDataKey(f) + ";"
		}
		return s + "}"
	case *NestedArr:
		return a.Data.String()
	case *RefArr:
		// reads only memoise elements: the identity of the contents is (base name, write version)
		return fmt.Sprintf("ref:%s:%d:%v", a.Base, a.Ver, a.Dirty)
	}
	return fmt.Sprintf("%p", d)
}

// viewImage returns the byte image B of the array a view looks at, for the
// array's CURRENT content, adding the linking facts on first use.
func (fr *FnRun) viewImage(st *State, s *SliceV) *Term {
	ex := fr.ex
	data := fr.sliceData(st, s)
	key := fmt.Sprintf("%d|%s", s.Arr.ID, hashScript(arrDataKey(data)))
	if st.viewImg == nil {
		st.viewImg = map[string]*Term{}
	}
	if b, ok := st.viewImg[key]; ok {
		return b
	}
	b := Var(ex.fresh("img_"+s.Arr.Name), SArrII)
	st.viewImg[key] = b
	w := int64(s.ViewW)
	e := Var(ex.fresh("e!v"), SInt)
	if na, ok := data.(*NestedArr); ok && ex.sizeOf(na.T.Elem()) == 1 {
		// elements are byte arrays: B[e*W+j] == A[e][j]
		j := Var(ex.fresh("j!v"), SInt)
		body := Eq(Select(b, Add(Mul(e, Int(w)), j)), fr.scalarByte(Select(Select(na.Data, e), j), na.T.Elem(), 1, 0))
		st.assume(Forall([]*Term{e, j}, Implies(And(Le(Int(0), j), Lt(j, Int(w))), body), Select(Select(na.Data, e), j)))
		st.assume(Forall([]*Term{e, j}, Implies(And(Le(Int(0), j), Lt(j, Int(w))), body), Select(b, Add(Mul(e, Int(w)), j))))
	} else {
		el := ex.readElem(st, data, s.ViewElem, e)
		bs := fr.elemBytes(st, el, s.ViewElem)
		var cs []*Term
		for j := int64(0); j < w; j++ {
			cs = append(cs, Eq(Select(b, Add(Mul(e, Int(w)), Int(j))), bs[j]))
		}
		st.assume(Forall([]*Term{e}, And(cs...), Select(b, Mul(e, Int(w)))))
		for _, l := range arrLeaves(data) {
			st.assume(Forall([]*Term{e}, And(cs...), Select(l, e)))
		}
	}
	// typed content as a function of the image (inverse direction)
	var sel []*Term
	for j := int64(0); j < w; j++ {
		sel = append(sel, Select(b, Add(Mul(e, Int(w)), Int(j))))
	}
	k := Var(ex.fresh("k!v"), SInt)
	st.assume(Forall([]*Term{k}, And(Le(Int(0), Select(b, k)), Lt(Select(b, k), Int(256))), Select(b, k)))
	return b
}

func (fr *FnRun) viewByte(st *State, v *SliceV, i *Term) *Term {
	return Select(fr.viewImage(st, v), Add(v.Off, i))
}

// viewCopyFact: dstArr[dstOff+k] == view[k] for 0 <= k < n.
func (fr *FnRun) viewCopyFact(st *State, dstArr *Term, dstOff *Term, src *SliceV, n *Term) *Term {
	ex := fr.ex
	b := fr.viewImage(st, src)
	k := Var(ex.fresh("k!vc"), SInt)
	bytewise := Forall([]*Term{k}, Implies(And(Le(Int(0), k), Lt(k, n)), Eq(Select(dstArr, Add(dstOff, k)), Select(b, Add(src.Off, k)))), Select(dstArr, Add(dstOff, k)))
	// element-wise form (aligned views only): dst[dstOff + W*e + j] == byte j of element e
	data := fr.sliceData(st, src)
	lv := arrLeaves(data)
	if !(src.Off.IsInt() && src.Off.I.Sign() == 0) || len(lv) == 0 {
		return bytewise
	}
	w := int64(src.ViewW)
	if na, isNested := data.(*NestedArr); isNested {
		if ex.sizeOf(na.T.Elem()) != 1 {
			return bytewise
		}
		// byte-array elements: dst[dstOff + W*e + j] == A[e][j]
		e := Var(ex.fresh("e!vc"), SInt)
		j := Var(ex.fresh("j!vc"), SInt)
		body := Implies(And(Le(Int(0), e), Le(Add(Mul(e, Int(w)), Int(w)), n), Le(Int(0), j), Lt(j, Int(w))),
			Eq(Select(dstArr, Add(dstOff, Add(Mul(e, Int(w)), j))), fr.scalarByte(Select(Select(na.Data, e), j), na.T.Elem(), 1, 0)))
		return And(bytewise, Forall([]*Term{e, j}, body, Select(Select(na.Data, e), j)))
	}
	e := Var(ex.fresh("e!vc"), SInt)
	el := ex.readElem(st, data, src.ViewElem, e)
	bs := fr.elemBytes(st, el, src.ViewElem)
	var cs []*Term
	for j := int64(0); j < w; j++ {
		cs = append(cs, Eq(Select(dstArr, Add(dstOff, Add(Mul(e, Int(w)), Int(j)))), bs[j]))
	}
	out := []*Term{bytewise}
	for _, l := range lv {
		out = append(out, Forall([]*Term{e}, Implies(And(Le(Int(0), e), Le(Add(Mul(e, Int(w)), Int(w)), n)), And(cs...)), Select(l, e)))
	}
	return And(out...)
}

// havocView gives the viewed window new bytes: the typed elements whose bytes
// lie completely inside [Off, Off+Len) are redefined from a fresh image; all
// other elements keep their value.  Returns the new image.
func (fr *FnRun) havocView(st *State, s *SliceV) *Term {
	ex := fr.ex
	oldImg := fr.viewImage(st, s)
	oldData := fr.sliceData(st, s)
	av := fr.arrOf(st, s)
	newData := ex.freshArrData(av.Elem, ex.fresh(s.Arr.Name))
	fr.setArr(st, s, &ArrayV{Elem: av.Elem, N: av.N, Data: newData})
	w := int64(s.ViewW)
	nb := Var(ex.fresh("img_"+s.Arr.Name), SArrII)
	key := fmt.Sprintf("%d|%s", s.Arr.ID, hashScript(arrDataKey(newData)))
	st.viewImg[key] = nb
	e := Var(ex.fresh("e!v"), SInt)
	var sel []*Term
	for j := int64(0); j < w; j++ {
		sel = append(sel, Select(nb, Add(Mul(e, Int(w)), Int(j))))
	}
	inWin := And(Le(s.Off, Mul(e, Int(w))), Le(Add(Mul(e, Int(w)), Int(w)), Add(s.Off, s.Len)))
	newEl := ex.readElem(st, newData, s.ViewElem, e)
	fromB := fr.elemFromBytes(st, s.ViewElem, sel)
	oldEl := ex.readElem(st, oldData, s.ViewElem, e)
	pat := Select(nb, Mul(e, Int(w)))
	if na, ok := newData.(*NestedArr); ok && ex.sizeOf(na.T.Elem()) == 1 {
		j := Var(ex.fresh("j!v"), SInt)
		body := Eq(Select(Select(na.Data, e), j), fr.scalarFromBytes(na.T.Elem(), 1, []*Term{Select(nb, Add(Mul(e, Int(w)), j))}))
		st.assume(Forall([]*Term{e, j}, Implies(And(inWin, Le(Int(0), j), Lt(j, Int(w))), body), Select(Select(na.Data, e), j)))
	} else {
		st.assume(Forall([]*Term{e}, Implies(inWin, fr.valEq(st, newEl, fromB)), pat))
		for _, l := range arrLeaves(newData) {
			st.assume(Forall([]*Term{e}, Implies(inWin, fr.valEq(st, newEl, fromB)), Select(l, e)))
		}
	}
	st.assume(Forall([]*Term{e}, Implies(Not(inWin), fr.valEq(st, newEl, oldEl))))
	// the image is consistent with the new typed content everywhere, and bytes outside the window are unchanged
	bs := fr.elemBytes(st, newEl, s.ViewElem)
	var cs []*Term
	for j := int64(0); j < w; j++ {
		cs = append(cs, Eq(sel[j], bs[j]))
	}
	st.assume(Forall([]*Term{e}, Implies(Not(inWin), And(cs...)), pat))
	k := Var(ex.fresh("k!v"), SInt)
	st.assume(Forall([]*Term{k}, And(Le(Int(0), Select(nb, k)), Lt(Select(nb, k), Int(256))), Select(nb, k)))
	st.assume(Forall([]*Term{k}, Implies(Or(Lt(k, s.Off), Le(Add(s.Off, s.Len), k)), Eq(Select(nb, k), Select(oldImg, k))), Select(nb, k)))
	return nb
}

func (fr *FnRun) copyIntoView(st *State, dst *SliceV, src *SliceV, n *Term) {
	if src == nil {
		panic(abortf("copy of a string into a byte view"))
	}
	oldImg := fr.viewImage(st, dst)
	var srcFact func(nb *Term) *Term
	k := Var(fr.ex.fresh("k!cv"), SInt)
	if src.ViewW > 0 {
		sb := fr.viewImage(st, src)
		srcFact = func(nb *Term) *Term {
			return Forall([]*Term{k}, Implies(And(Le(Int(0), k), Lt(k, n)), Eq(Select(nb, Add(dst.Off, k)), Select(sb, Add(src.Off, k)))), Select(nb, Add(dst.Off, k)))
		}
	} else {
		sd, ok := fr.sliceData(st, src).(*Term)
		if !ok {
			panic(abortf("copy into byte view from non-byte slice"))
		}
		srcFact = func(nb *Term) *Term {
			return Forall([]*Term{k}, Implies(And(Le(Int(0), k), Lt(k, n)), Eq(Select(nb, Add(dst.Off, k)), Select(sd, Add(src.Off, k)))), Select(nb, Add(dst.Off, k)))
		}
	}
	win := &SliceV{Nil: dst.Nil, Arr: dst.Arr, Off: dst.Off, Len: dst.Len, Cap: dst.Cap, Elem: dst.Elem, ViewW: dst.ViewW, ViewElem: dst.ViewElem}
	nb := fr.havocView(st, win)
	st.assume(srcFact(nb))
	k2 := Var(fr.ex.fresh("k!cv"), SInt)
	st.assume(Forall([]*Term{k2}, Implies(And(Le(Add(dst.Off, n), k2), Lt(k2, Add(dst.Off, dst.Len))), Eq(Select(nb, k2), Select(oldImg, k2))), Select(nb, k2)))
}
