package main

import (
	"regexp"
	"fmt"
	"go/ast"
	"os"
	"runtime"
	"go/constant"
	"go/token"
	"go/types"
	"math/big"
	"sort"
	"strings"

	"golang.org/x/tools/go/ssa"
)

type Obligation struct {
	Name    string
	Func    string
	Kind    string
	Clause  string
	Label   string
	Props   []string
	Path    []string
	Facts   []*Term
	Goal    *Term
	Script  string
	Trivial bool
	Res     SolveResult
	File    string
	Line    int
	Case    string
	Vars    map[string]string // replay hints: contract name -> smt var
}

type loopInfo struct {
	head    *ssa.BasicBlock
	ordinal int
	blocks  map[*ssa.BasicBlock]bool
	spec    *LoopSpec
}

type FnRun struct {
	pendingRet map[string]Val // results about to be returned, while deferred calls run
	callsObj   *Obj           // ghost object holding the call counters used by calls("pattern")
	callPats   []string
	postSkipped, postEvaluated map[*Clause]int
	siteArgs   []Val          // arguments of the call whose callsite assertions are being checked
	ex       *Exec
	fn       *ssa.Function
	key      string
	ctr      *Contract
	loops    map[*ssa.BasicBlock]*loopInfo
	clearRanges map[*ssa.Range]bool
	mergeInto   *State
	stalePre    []string
	extraEnv    map[string]Val // captured variables of a closure whose contract is being applied
	mergeMade   []*Obj
	ord      map[ssa.Instruction]int
	paths    int
	caseName string
	curCase  *CaseSpec
	env0     map[string]Val // parameter bindings at entry
	entry    *State
	depth    int
	splitVals map[string]int64
	props    []string
	nobl     int
	locals   map[string][]ssa.Value // source names of locals (from DebugRef), candidates in block order
	entryMaxObj int
}

// VerifyFunction generates all obligations of one function under its contract.
func (ex *Exec) VerifyFunction(key string) (err error) {
	fn := ex.P.Funcs[key]
	if fn == nil {
		return fmt.Errorf("function %s not found in the loaded program", key)
	}
	if fn.Blocks == nil {
		return fmt.Errorf("function %s has no body", key)
	}
	ctr := ex.DB.Contracts[key]
	if ctr != nil && ctr.Assumed {
		return fmt.Errorf("function %s has only an assumed contract", key)
	}
	cases := []*CaseSpec{nil}
	if ctr != nil && len(ctr.Cases) > 0 {
		cases = nil
		for _, c := range ctr.Cases {
			cases = append(cases, c)
		}
	}
	// finite splits: cartesian product
	splitSets := []map[string]int64{{}}
	if ctr != nil {
		for _, sp := range ctr.Splits {
			var next []map[string]int64
			for _, m := range splitSets {
				for v := sp.Lo; v <= sp.Hi; v++ {
					n := map[string]int64{}
					for k, x := range m {
						n[k] = x
					}
					n[sp.Name] = v
					next = append(next, n)
				}
			}
			splitSets = next
		}
	}
	for _, cs := range cases {
		for _, sv := range splitSets {
			if e := ex.verifyCase(fn, key, ctr, cs, sv); e != nil {
				return e
			}
		}
	}
	return nil
}

func (ex *Exec) verifyCase(fn *ssa.Function, key string, ctr *Contract, cs *CaseSpec, split map[string]int64) (err error) {
	fr := &FnRun{ex: ex, fn: fn, key: key, ctr: ctr, curCase: cs, splitVals: split}
	if cs != nil {
		fr.caseName = cs.Name
	}
	if len(split) > 0 {
		var ks []string
		for k := range split {
			ks = append(ks, k)
		}
		sort.Strings(ks)
		for _, k := range ks {
			if fr.caseName != "" {
				fr.caseName += ","
			}
			fr.caseName += fmt.Sprintf("%s=%d", k, split[k])
		}
	}
	if ctr != nil {
		fr.props = ctr.Props
	} else {
		fr.props = []string{"C06"} // implicit safety obligations of functions without a contract
	}
	fr.analyzeLoops()
	fr.numberInstrs()
	fr.collectLocals()
	// names are per function: reset the name-keyed tables
	ex.lazyObjs = map[string]*Obj{}
	ex.varFacts = map[string]*Term{}
	ex.globals = map[*ssa.Global]*Obj{}
	prev := ex.curFn
	ex.curFn = fr
	defer func() { ex.curFn = prev }()
	defer func() {
		if r := recover(); r != nil {
			if a, ok := r.(*abortErr); ok {
				err = fmt.Errorf("%s: %s", ShortKey(key), a.msg)
				return
			}
			ie := wrapInternal(r).(*internalErr)
			err = fmt.Errorf("%s: internal error: %s @ %s", ShortKey(key), ie.msg, ie.where)
		}
	}()
	st := &State{vals: map[ssa.Value]Val{}, heap: map[*Obj]Val{}}
	// parameters
	env := map[string]Val{}
	names := fr.paramNames()
	for i, p := range fn.Params {
		nm := names[i]
		v := ex.freshVal(p.Type(), nm)
		if sv, ok := split[nm]; ok {
			v = Int(sv)
		}
		st.vals[p] = v
		env[nm] = v
		ex.assumeValid(st, v, p.Type(), 0)
	}
	for i, fv := range fn.FreeVars {
		// closures verified on their own: captured variables are symbolic cells
		v := ex.freshVal(fv.Type(), fmt.Sprintf("free%d_%s", i, fv.Name()))
		if pv, ok := v.(*PtrV); ok {
			pv.Nil = tFalse
		}
		st.vals[fv] = v
		env[fv.Name()] = v
	}
	fr.env0 = env
	// assumed invariants of package-level variables
	if fn.Pkg != nil && fn.Name() != "init" {
		for _, gi := range ex.DB.Globals {
			if gi.Pkg == fn.Pkg.Pkg.Path() {
				st.assume(fr.evalBool(gi.E, &Env{st: st, old: st, vars: map[string]Val{}, fr: fr, pkg: gi.Pkg}))
				ex.Assumptions["assumed invariant of package-level variables ("+gi.Name+"): "+gi.Src] = true
			}
		}
	}
	// preconditions
	if ctr != nil {
		for i, rq := range ctr.Requires {
			// a precondition that mentions something the function no longer has (typically a captured
			// variable a closure stopped capturing) cannot be stated any more: that is reported as a
			// failed obligation, conjunct by conjunct, and the remaining conjuncts are still assumed
			for j, cj := range exprConjuncts(rq.E) {
				// (`assuming`: a requires clause is assumed at the entry of the function it belongs to;
				// that is the only place where each() can be given a meaning)
				t, msg := fr.tryEvalBool(cj, &Env{st: st, old: st, vars: env, fr: fr, assuming: true})
				if msg != "" {
					fr.stalePre = append(fr.stalePre, fmt.Sprintf("%d.%d|%s   [%s]", i+1, j+1, rq.Src, msg))
					continue
				}
				st.assume(t)
			}
		}
	}
	if cs != nil {
		for _, rq := range cs.Requires {
			t := fr.evalBool(rq.E, &Env{st: st, old: st, vars: env, fr: fr})
			st.assume(t)
		}
	}
	entry := st.clone()
	st.old = entry
	fr.entry = entry
	fr.entryMaxObj = ex.objCount
	fr.initCallCounters(st)
	fr.checkSitesExist(st)
	for _, sp := range fr.stalePre {
		parts := strings.SplitN(sp, "|", 2)
		fr.oblige(st, "pre-stale", parts[0], tFalse, nil, "precondition can no longer be evaluated over this function: "+parts[1])
	}
	fr.runFrom(st, fn.Blocks[0], nil, 0, func(st *State, results []Val) {
		fr.checkPost(st, results)
	})
	// an [internal] clause over locals that was skipped on every return path (its locals are never
	// in scope at a return) states nothing: that is a failed obligation, not a pass
	for en, skipped := range fr.postSkipped {
		if skipped > 0 && fr.postEvaluated[en] == 0 {
			d := en.Label
			if d == "" {
				d = "internal"
			}
			fr.oblige(st, "post", d, tFalse, en, en.Src+"   [never evaluable: its locals are not in scope at any return]")
		}
	}
	if fr.nobl == 0 {
		// a function with no obligations at all is still recorded so vacuity can be seen
	}
	return nil
}

func (fr *FnRun) paramNames() []string {
	fn := fr.fn
	names := make([]string, len(fn.Params))
	for i, p := range fn.Params {
		names[i] = p.Name()
		if names[i] == "" || names[i] == "_" {
			names[i] = fmt.Sprintf("arg%d", i)
		}
	}
	if fr.ctr != nil {
		off := 0
		if fn.Signature.Recv() != nil {
			if fr.ctr.RecvName != "" {
				names[0] = fr.ctr.RecvName
			}
			off = 1
		}
		for i, n := range fr.ctr.Params {
			if off+i < len(names) {
				names[off+i] = n
			}
		}
	}
	return names
}

// analyzeLoops finds natural loops (back edges to dominators) and numbers the
// heads in source order.
func (fr *FnRun) analyzeLoops() {
	fn := fr.fn
	fr.loops = map[*ssa.BasicBlock]*loopInfo{}
	var heads []*ssa.BasicBlock
	for _, b := range fn.Blocks {
		for _, s := range b.Succs {
			if s.Dominates(b) {
				li := fr.loops[s]
				if li == nil {
					li = &loopInfo{head: s, blocks: map[*ssa.BasicBlock]bool{s: true}}
					fr.loops[s] = li
					heads = append(heads, s)
				}
				// natural loop of back edge b->s
				var stack []*ssa.BasicBlock
				if !li.blocks[b] {
					li.blocks[b] = true
					stack = append(stack, b)
				}
				for len(stack) > 0 {
					x := stack[len(stack)-1]
					stack = stack[:len(stack)-1]
					for _, p := range x.Preds {
						if !li.blocks[p] {
							li.blocks[p] = true
							stack = append(stack, p)
						}
					}
				}
			}
		}
	}
	// `for k := range m { delete(m, k) }` is the map-clearing idiom: executed as clear(m), the loop
	// itself is not cut (and not numbered)
	fr.clearRanges = map[*ssa.Range]bool{}
	kept := heads[:0]
	for _, h := range heads {
		if r := mapClearIdiom(fr.loops[h]); r != nil {
			fr.clearRanges[r] = true
			delete(fr.loops, h)
			continue
		}
		kept = append(kept, h)
	}
	heads = kept
	sort.Slice(heads, func(i, j int) bool { return blockPos(heads[i]) < blockPos(heads[j]) })
	for i, h := range heads {
		fr.loops[h].ordinal = i
		fr.loops[h].spec = fr.ex.loopSpecFor(fr.ctr, i)
	}
}

// mapClearIdiom recognises a two-block loop `for k := range m { delete(m, k) }` where both
// occurrences of m are the same SSA value or loads of the same field of the same base.
func mapClearIdiom(li *loopInfo) *ssa.Range {
	if len(li.blocks) != 2 {
		return nil
	}
	h := li.head
	var hi []ssa.Instruction
	for _, in := range h.Instrs {
		if _, dbg := in.(*ssa.DebugRef); !dbg {
			hi = append(hi, in)
		}
	}
	if len(hi) != 3 {
		return nil
	}
	nx, ok := hi[0].(*ssa.Next)
	if !ok || nx.IsString {
		return nil
	}
	rg, ok := nx.Iter.(*ssa.Range)
	if !ok {
		return nil
	}
	if _, isMap := under(rg.X.Type()).(*types.Map); !isMap {
		return nil
	}
	okx, ok := hi[1].(*ssa.Extract)
	if !ok || okx.Tuple != nx || okx.Index != 0 {
		return nil
	}
	iff, ok := hi[2].(*ssa.If)
	if !ok || iff.Cond != okx {
		return nil
	}
	body := h.Succs[0]
	if !li.blocks[body] || body == h {
		return nil
	}
	var key *ssa.Extract
	var del *ssa.Call
	for i, in := range body.Instrs {
		switch x := in.(type) {
		case *ssa.Extract:
			if x.Tuple != nx || x.Index != 1 || key != nil {
				return nil
			}
			key = x
		case *ssa.FieldAddr, *ssa.DebugRef:
		case *ssa.UnOp:
			if x.Op != token.MUL {
				return nil
			}
		case *ssa.Call:
			b, isB := x.Call.Value.(*ssa.Builtin)
			if !isB || b.Name() != "delete" || del != nil {
				return nil
			}
			del = x
		case *ssa.Jump:
			if i != len(body.Instrs)-1 {
				return nil
			}
		default:
			return nil
		}
	}
	if key == nil || del == nil || del.Call.Args[1] != ssa.Value(key) {
		return nil
	}
	same := func(a, b ssa.Value) bool {
		if a == b {
			return true
		}
		ua, ok1 := a.(*ssa.UnOp)
		ub, ok2 := b.(*ssa.UnOp)
		if !ok1 || !ok2 || ua.Op != token.MUL || ub.Op != token.MUL {
			return false
		}
		fa, ok1 := ua.X.(*ssa.FieldAddr)
		fb, ok2 := ub.X.(*ssa.FieldAddr)
		return ok1 && ok2 && fa.X == fb.X && fa.Field == fb.Field
	}
	if !same(rg.X, del.Call.Args[0]) {
		return nil
	}
	return rg
}

func blockPos(b *ssa.BasicBlock) token.Pos {
	// position of the first instruction with a position; loop heads built by
	// the SSA builder follow source order of their index as a fallback
	for _, in := range b.Instrs {
		if p := in.Pos(); p.IsValid() {
			return p
		}
	}
	for _, s := range b.Succs {
		for _, in := range s.Instrs {
			if p := in.Pos(); p.IsValid() {
				return p
			}
		}
	}
	return token.Pos(1<<30 + b.Index)
}

func (fr *FnRun) numberInstrs() {
	fr.ord = map[ssa.Instruction]int{}
	counts := map[string]int{}
	for _, b := range fr.fn.Blocks {
		for _, in := range b.Instrs {
			k := instrKind(in)
			if k == "" {
				continue
			}
			fr.ord[in] = counts[k]
			counts[k]++
		}
	}
}

func instrKind(in ssa.Instruction) string {
	switch x := in.(type) {
	case *ssa.IndexAddr, *ssa.Index:
		return "bounds"
	case *ssa.Slice:
		return "slice"
	case *ssa.SliceToArrayPointer:
		return "s2a"
	case *ssa.FieldAddr, *ssa.Store:
		return "nil"
	case *ssa.UnOp:
		if x.Op == token.MUL {
			return "nil"
		}
		if x.Op == token.SUB {
			return "ovf"
		}
	case *ssa.BinOp:
		switch x.Op {
		case token.QUO, token.REM:
			return "div"
		case token.ADD, token.SUB, token.MUL:
			return "ovf"
		case token.SHL, token.SHR:
			return "shift"
		}
	case *ssa.Call:
		return "call"
	case *ssa.Defer:
		return "call"
	case *ssa.Go:
		return "call"
	case *ssa.MakeSlice:
		return "alloc"
	case *ssa.TypeAssert:
		return "assert"
	case *ssa.Panic:
		return "panic"
	case *ssa.MapUpdate:
		return "mapnil"
	case *ssa.Convert:
		return "conv"
	}
	return ""
}

// ---------------------------------------------------------------------------
// obligations

func (fr *FnRun) oblName(kind string, detail string) string {
	n := ShortKey(fr.key) + "#" + kind
	if detail != "" {
		n += ":" + detail
	}
	if fr.caseName != "" {
		n += "/" + fr.caseName
	}
	return n
}

func (fr *FnRun) oblige(st *State, kind, detail string, goal *Term, clause *Clause, srcText string) {
	ex := fr.ex
	fr.nobl++
	o := &Obligation{Name: fr.oblName(kind, detail), Func: fr.key, Kind: kind, Clause: srcText, Goal: goal, Case: fr.caseName}
	o.Props = fr.props
	if kind == "guard" {
		// lock discipline is a fact about the access itself: it counts for every property whose
		// function list names this function, whatever the contract's props() say
		o.Props = nil
	}
	if clause != nil {
		if len(clause.Props) > 0 {
			o.Props = clause.Props
		}
		o.Label = clause.Label
		o.File, o.Line = clause.File, clause.Line
		if o.Clause == "" {
			o.Clause = clause.Src
		}
	}
	o.Path = append([]string(nil), st.trace...)
	facts := st.facts
	goal, facts = ex.skolemize(goal, facts)
	o.Goal = goal
	if goal.IsTrue() || contradictsHyp(st.facts, facts[len(st.facts):]) {
		o.Trivial = true
		ex.Obls = append(ex.Obls, o)
		return
	}
	o.Facts = ex.closeFacts(facts, goal)
	o.Script = Script(o.Facts, goal, ex.UFs, ex.AxiomTs)
	ex.Obls = append(ex.Obls, o)
}

// contradictsHyp: a hypothesis of the goal is the syntactic negation of a fact already on the
// path (typically `err == nil ==> ...` checked at an exit where err is known non-nil): the
// obligation holds without a solver call.
func contradictsHyp(facts, hyps []*Term) bool {
	if len(hyps) == 0 {
		return false
	}
	set := map[string]bool{}
	for _, f := range facts {
		for _, c := range conjuncts(f) {
			set[c.String()] = true
		}
	}
	for _, h := range hyps {
		for _, c := range conjuncts(h) {
			if c.Op == "not" && len(c.Args) == 1 {
				if set[c.Args[0].String()] {
					return true
				}
			} else if set[Not(c).String()] {
				return true
			}
		}
	}
	return false
}

// skolemize turns a goal `forall x :: A ==> B` into hypotheses A[sk/x] and goal
// B[sk/x] with fresh constants, so that a failing quantified goal still gives a
// model naming the offending index.
func (ex *Exec) skolemize(goal *Term, facts []*Term) (*Term, []*Term) {
	for {
		switch goal.Op {
		case "forall":
			m := map[string]*Term{}
			for _, b := range goal.Bound {
				m[b.Name] = Var(ex.fresh("sk_"+b.Name), b.Sort)
			}
			goal = Subst(goal.Args[0], m)
			continue
		case "=>":
			facts = append(facts[:len(facts):len(facts)], goal.Args[0])
			goal = goal.Args[1]
			continue
		}
		return goal, facts
	}
}

// closeFacts adds the registered range facts of every variable mentioned.
func (ex *Exec) closeFacts(facts []*Term, goal *Term) []*Term {
	dc := &declCollector{vars: map[string]Sort{}, apps: map[string]bool{}, sorts: map[string]bool{}}
	for _, f := range facts {
		collect(f, nil, dc)
	}
	collect(goal, nil, dc)
	out := append([]*Term(nil), facts...)
	seen := map[string]bool{}
	for changed := true; changed; {
		changed = false
		var names []string
		for v := range dc.vars {
			names = append(names, v)
		}
		sort.Strings(names)
		for _, v := range names {
			if seen[v] {
				continue
			}
			seen[v] = true
			if f, ok := ex.varFacts[v]; ok {
				out = append(out, f)
				collect(f, nil, dc)
				changed = true
			}
		}
	}
	return out
}

// Cover is a reachability query: the facts of a path to a return must be
// satisfiable for at least one return of each verified function (vacuity guard).
type Cover struct {
	Func   string
	Case   string
	Script string
	Answer string
}

// checkPost emits the postcondition obligations at a return.
func (fr *FnRun) checkPost(st *State, results []Val) {
	if len(fr.ex.Covers) < 4096 {
		facts := fr.ex.closeFacts(st.facts, tTrue)
		fr.ex.Covers = append(fr.ex.Covers, &Cover{Func: fr.key, Case: fr.caseName, Script: Script(facts, nil, fr.ex.UFs, fr.ex.AxiomTs)})
	}
	ctr := fr.ctr
	if ctr == nil && fr.curCase == nil {
		fr.defaultPost(st, results)
		return
	}
	env := map[string]Val{}
	for k, v := range fr.env0 {
		env[k] = v
	}
	for i, r := range results {
		if ctr != nil && i < len(ctr.Results) {
			env[ctr.Results[i]] = r
		}
		env[fmt.Sprintf("result%d", i)] = r
	}
	if len(results) == 1 {
		env["result"] = results[0]
	}
	// named locals keep their value at the return point (parameters and results take precedence)
	fr.bindLocals(st, env)
	// loop-carried variables of the function's own loops, as named by their loop specs:
	// L<ordinal>_<name> is the value the variable had when the loop head was last passed
	for _, li := range fr.loops {
		if li.spec == nil {
			continue
		}
		i := 0
		for _, in := range li.head.Instrs {
			ph, ok := in.(*ssa.Phi)
			if !ok {
				break
			}
			if i < len(li.spec.Names) && li.spec.Names[i] != "_" {
				if v, ok := st.vals[ph]; ok {
					env[fmt.Sprintf("L%d_%s", li.ordinal, li.spec.Names[i])] = v
				}
			}
			i++
		}
	}
	e := &Env{st: st, old: fr.entry, vars: env, fr: fr}
	var all []*Clause
	if ctr != nil {
		fr.bindLets(st, ctr, e)
		all = append(all, ctr.Ensures...)
	}
	if fr.curCase != nil {
		all = append(all, fr.curCase.Ensures...)
	}
	for i, en := range all {
		if en.Assumed {
			fr.ex.Assumptions[fmt.Sprintf("abstract postcondition of %s (not checked against the body): %s", ShortKey(fr.key), en.Src)] = true
			continue
		}
		t, evalErr := fr.tryEvalBool(en.E, e)
		if evalErr != "" && en.E.Kind == "bin" && en.E.Op == "==>" {
			// `A ==> B` where B mentions something that does not exist at this return point (a local
			// not yet assigned): B counts as false here, so the obligation is that A does not hold
			if ta, msg := fr.tryEvalBool(en.E.X, e); msg == "" {
				t, evalErr = Not(ta), ""
			}
		}
		if evalErr != "" && en.Internal && en.E.Kind == "bin" && en.E.Op == "==>" && fr.mentionsUndefinedLocal(evalErr) {
			// an [internal] clause `A ==> B` whose antecedent talks about a local of the function that
			// does not exist on this return path (the function returned before declaring it): the
			// situation A describes did not arise here
			if fr.postSkipped == nil {
				fr.postSkipped = map[*Clause]int{}
			}
			fr.postSkipped[en]++
			continue
		}
		if evalErr == "" {
			if fr.postEvaluated == nil {
				fr.postEvaluated = map[*Clause]int{}
			}
			fr.postEvaluated[en]++
		}
		if evalErr != "" {
			if n := fr.staleName(evalErr); n != "" && fr.fn.Parent() == nil {
				panic(abortf("contract out of date: clause {%s} mentions %q, which is not a parameter or local of the function any more (renamed or removed); the contract has to be updated", en.Label, n))
			}
		}
		if evalErr != "" {
			// the clause can no longer be stated over this function (e.g. it mentions a captured
			// variable the function no longer has): the obligation fails
			d := fmt.Sprintf("%d", i+1)
			if en.Label != "" {
				d = en.Label
			}
			fr.oblige(st, "post", d, tFalse, en, en.Src+"   [cannot be evaluated: "+evalErr+"]")
			continue
		}
		for j, c := range conjuncts(t) {
			d := fmt.Sprintf("%d", i+1)
			if en.Label != "" {
				d = en.Label
			}
			if len(conjuncts(t)) > 1 {
				d += fmt.Sprintf(".%d", j+1)
			}
			fr.oblige(st, "post", d, c, en, "")
		}
	}
	fr.checkFrame(st)
	fr.defaultPost(st, results)
}

// mentionsUndefinedLocal: the evaluation error names an identifier that is a source-level local of
// this function (so the clause is about a later part of the body), not something unknown altogether.
func (fr *FnRun) mentionsUndefinedLocal(evalErr string) bool {
	i := strings.Index(evalErr, "unknown identifier \"")
	if i < 0 {
		return false
	}
	name := evalErr[i+len("unknown identifier \""):]
	if j := strings.Index(name, "\""); j >= 0 {
		name = name[:j]
	}
	_, ok := fr.locals[name]
	return ok
}

// Call counters: `calls("pattern")` in a postcondition or call-site assertion is the number of calls
// matching the pattern (same patterns as `callsite`) that the function itself has executed so far
// on the current path.  The counters live in a ghost object created after entry (so they are not
// part of the frame); a loop whose body contains a matching call makes the counter unknown
// (non-negative) at the loop head.
var callsRe = regexp.MustCompile(`calls\("([^"]+)"\)`)

func (fr *FnRun) initCallCounters(st *State) {
	fr.callsObj, fr.callPats = nil, nil
	if fr.ctr == nil {
		return
	}
	seen := map[string]bool{}
	scan := func(src string) {
		for _, m := range callsRe.FindAllStringSubmatch(src, -1) {
			if !seen[m[1]] {
				seen[m[1]] = true
				fr.callPats = append(fr.callPats, m[1])
			}
		}
	}
	for _, en := range fr.ctr.Ensures {
		scan(en.Src)
	}
	for _, cs := range fr.ctr.Cases {
		for _, en := range cs.Ensures {
			scan(en.Src)
		}
	}
	for _, sp := range fr.ctr.Sites {
		for _, a := range sp.Asserts {
			scan(a.Src)
		}
	}
	// loop invariants may relate a counter to the loop variables (`calls("f") == i`): the counter is
	// made unknown at the loop head BEFORE the invariants are assumed
	for _, ls := range fr.ctr.Loops {
		for _, inv := range ls.Invariants {
			scan(inv.Src)
		}
	}
	for _, ls := range fr.ctr.VLoops {
		for _, inv := range ls.Invariants {
			scan(inv.Src)
		}
	}
	if len(fr.callPats) == 0 {
		return
	}
	fr.callsObj = fr.ex.newObj("calls!", nil)
	g := map[string]Val{}
	for _, p := range fr.callPats {
		g[p] = Int(0)
	}
	st.heap[fr.callsObj] = &StructV{Ghost: g}
}

// bumpCallCounters: a call made by the function itself is about to run.
func (fr *FnRun) bumpCallCounters(st *State, site ssa.Instruction) {
	if fr.callsObj == nil || site == nil || site.Parent() != fr.fn {
		return
	}
	sv, ok := st.heap[fr.callsObj].(*StructV)
	if !ok {
		return
	}
	var ng map[string]Val
	for _, p := range fr.callPats {
		if !fr.siteMatches(&CallSiteSpec{Pattern: p}, site) {
			continue
		}
		if ng == nil {
			ng = map[string]Val{}
			for k, v := range sv.Ghost {
				ng[k] = v
			}
		}
		ng[p] = Add(ng[p].(*Term), Int(1))
	}
	if ng != nil {
		st.heap[fr.callsObj] = &StructV{Ghost: ng}
	}
}

// loopCallCounters: at a loop head, counters of calls that occur inside the loop become unknown.
func (fr *FnRun) loopCallCounters(st *State, li *loopInfo) {
	if fr.callsObj == nil {
		return
	}
	sv, ok := st.heap[fr.callsObj].(*StructV)
	if !ok {
		return
	}
	var ng map[string]Val
	for _, p := range fr.callPats {
		inLoop := false
		for _, in := range fr.matchingSites(&CallSiteSpec{Pattern: p}) {
			if li.blocks[in.Block()] {
				inLoop = true
			}
		}
		if !inLoop {
			continue
		}
		if ng == nil {
			ng = map[string]Val{}
			for k, v := range sv.Ghost {
				ng[k] = v
			}
		}
		nv := Var(fr.ex.fresh("calls!"+sanitize(p)), SInt)
		st.assume(Le(Int(0), nv))
		ng[p] = nv
	}
	if ng != nil {
		st.heap[fr.callsObj] = &StructV{Ghost: ng}
	}
}

// staleName: the evaluation error names an identifier that is neither a parameter, a captured
// variable nor a source-level local of the function (any more): the contract talks about something
// that was renamed or removed.  That is a contract out of date - the function becomes UNDECIDED -
// not a violation of the property (a renamed local is a harmless edit).  A name that still exists
// but has no value at the point of the clause (the code was reordered) is a different matter and
// stays a failed obligation.
func (fr *FnRun) staleName(evalErr string) string {
	i := strings.Index(evalErr, "unknown identifier \"")
	if i < 0 {
		return ""
	}
	name := evalErr[i+len("unknown identifier \""):]
	if j := strings.Index(name, "\""); j >= 0 {
		name = name[:j]
	}
	if _, ok := fr.locals[name]; ok {
		return ""
	}
	if _, ok := fr.env0[name]; ok {
		return ""
	}
	if strings.HasPrefix(name, "L") && strings.Contains(name, "_") {
		return "" // L<ord>_<name> loop variables are positional
	}
	return name
}

// defaultPost: implicit postconditions every function gets.
func (fr *FnRun) defaultPost(st *State, results []Val) {
	fr.checkSticky(st, results)
}

func conjuncts(t *Term) []*Term {
	if t.Op == "and" {
		var out []*Term
		for _, a := range t.Args {
			out = append(out, conjuncts(a)...)
		}
		return out
	}
	return []*Term{t}
}

// ---------------------------------------------------------------------------
// running blocks

type retK func(st *State, results []Val)

func (fr *FnRun) runFrom(st *State, b *ssa.BasicBlock, prev *ssa.BasicBlock, depth int, k retK) {
	defer func() {
		if r := recover(); r != nil {
			if _, ok := r.(pathStop); ok {
				return
			}
			panic(wrapInternal(r))
		}
	}()
	fr.runBlock(st, b, prev, depth, k)
}

func (fr *FnRun) runBlock(st *State, b *ssa.BasicBlock, prev *ssa.BasicBlock, depth int, k retK) {
	fn := b.Parent()
	if n := len(st.stops); n > 0 && st.stops[n-1].block == b && st.stops[n-1].depth == depth {
		rec := st.stops[n-1]
		st.stops = st.stops[: n-1 : n-1]
		rec.collect(st, prev)
		return
	}
	if len(st.guards) > 0 {
		var keep []*loopGuard
		for _, g := range st.guards {
			if g.li.head.Parent() != fn || g.li.blocks[b] {
				keep = append(keep, g)
			}
		}
		st.guards = keep
	}
	for {
		fr.paths++
		if fr.paths > 200000 {
			panic(abortf("instruction budget exhausted"))
		}
		// loop head handling (only for the function under verification and inlined bodies alike)
		if li := fr.loopOf(fn, b); li != nil {
			if prev != nil && li.blocks[prev] {
				// back edge: invariant preserved, path ends
				fr.loopBack(st, li, b, prev)
				return
			}
			if !fr.loopEnter(st, li, b, prev) {
				return // an invariant could not even be evaluated at the entry: reported, path ends
			}
		}
		// phis
		var phiVals []Val
		var phis []*ssa.Phi
		for _, in := range b.Instrs {
			ph, ok := in.(*ssa.Phi)
			if !ok {
				break
			}
			phis = append(phis, ph)
			if li := fr.loopOf(fn, b); li != nil {
				phiVals = append(phiVals, st.vals[ph]) // set by loopEnter
				continue
			}
			if ov, ok := st.phiOverride[ph]; ok {
				phiVals = append(phiVals, ov)
				continue
			}
			idx := -1
			for i, p := range b.Preds {
				if p == prev {
					idx = i
				}
			}
			if idx < 0 {
				panic(abortf("phi without predecessor"))
			}
			phiVals = append(phiVals, fr.value(st, ph.Edges[idx]))
		}
		for i, ph := range phis {
			st.vals[ph] = phiVals[i]
		}
		st.phiOverride = nil
		fr.runRest(st, b, b.Instrs[len(phis):], depth, k)
		return
	}
}

// runRest continues a block after a CPS-style instruction.
func (fr *FnRun) runRest(st *State, b *ssa.BasicBlock, rest []ssa.Instruction, depth int, k retK) {
	defer func() {
		if r := recover(); r != nil {
			if _, ok := r.(pathStop); ok {
				return
			}
			panic(wrapInternal(r))
		}
	}()
	for i, in := range rest {
		switch x := in.(type) {
		case *ssa.If:
			c := fr.term(st, x.Cond)
			tb, fb := b.Succs[0], b.Succs[1]
			if c.IsTrue() {
				fr.runBlock(st, tb, b, depth, k)
				return
			}
			if c.IsFalse() {
				fr.runBlock(st, fb, b, depth, k)
				return
			}
			if os.Getenv("GOVC_NOMERGE") == "" && fr.runIfMerged(st, b, c, depth, k) {
				return
			}
			st2 := st.clone()
			st.assume(c)
			st.note(fmt.Sprintf("b%d:T", b.Index))
			st2.assume(Not(c))
			st2.note(fmt.Sprintf("b%d:F", b.Index))
			fr.runFrom(st, tb, b, depth, k)
			fr.runFrom(st2, fb, b, depth, k)
			return
		case *ssa.Jump:
			fr.runBlock(st, b.Succs[0], b, depth, k)
			return
		case *ssa.Return:
			var res []Val
			for _, r := range x.Results {
				res = append(res, fr.value(st, r))
			}
			k(st, res)
			return
		case *ssa.Panic:
			if fr.ctr != nil && fr.ctr.Flags["maypanic"] != "" && in.Parent() == fr.fn {
				// the contract allows this function to panic deliberately (documented behaviour):
				// the path ends, callers are told by the assumption list
				fr.ex.Assumptions[ShortKey(fr.key)+" may panic deliberately (contract flag maypanic): the panicking path is not followed"] = true
				return
			}
			fr.oblige(st, "panic", fmt.Sprint(fr.ord[in]), tFalse, nil, "explicit panic is unreachable")
			return
		case *ssa.RunDefers:
			// the results about to be returned (unnamed results are already computed; named ones are
			// read after the deferred calls and are visible as locals)
			if b.Parent() == fr.fn {
				fr.pendingRet = map[string]Val{}
				for _, nx := range rest[i+1:] {
					if ret, ok := nx.(*ssa.Return); ok {
						for ri, rv := range ret.Results {
							func() {
								defer func() { recover() }()
								var v Val
								if u, ok := rv.(*ssa.UnOp); ok && u.Op == token.MUL {
									// the result cell the builder introduces when a function defers
									v = fr.ex.load(st, fr.ptr(st, u.X))
								} else {
									v = fr.value(st, rv)
								}
								if fr.ctr != nil && ri < len(fr.ctr.Results) {
									fr.pendingRet[fr.ctr.Results[ri]] = v
								}
								if len(ret.Results) == 1 {
									fr.pendingRet["result"] = v
								}
							}()
						}
					}
				}
			}
			fr.runDefers(st, depth, func(st2 *State) {
				fr.runRest(st2, b, rest[i+1:], depth, k)
			})
			return
		case *ssa.Call:
			fr.call(st, x, x.Common(), depth, func(st2 *State, res Val) {
				st2.vals[x] = res
				fr.runRest(st2, b, rest[i+1:], depth, k)
			})
			return
		default:
			fr.instr(st, in, depth)
		}
	}
	panic(abortf("block b%d fell through", b.Index))
}

func indexOf(ins []ssa.Instruction, in ssa.Instruction) int {
	for i, x := range ins {
		if x == in {
			return i
		}
	}
	return -1
}

func (fr *FnRun) loopOf(fn *ssa.Function, b *ssa.BasicBlock) *loopInfo {
	if fn == fr.fn {
		return fr.loops[b]
	}
	// inlined function: loops are analysed on demand
	sub := fr.ex.inlineLoops(fn)
	return sub[b]
}

var inlineLoopCache = map[*ssa.Function]map[*ssa.BasicBlock]*loopInfo{}

func (ex *Exec) inlineLoops(fn *ssa.Function) map[*ssa.BasicBlock]*loopInfo {
	if m, ok := inlineLoopCache[fn]; ok {
		return m
	}
	tmp := &FnRun{ex: ex, fn: fn, key: FuncKey(fn), ctr: ex.DB.Contracts[FuncKey(fn)]}
	tmp.analyzeLoops()
	inlineLoopCache[fn] = tmp.loops
	return tmp.loops
}

// ---------------------------------------------------------------------------
// values

func (fr *FnRun) value(st *State, v ssa.Value) Val {
	switch x := v.(type) {
	case *ssa.Const:
		return fr.ex.constVal(x)
	case *ssa.Function:
		return &FuncV{Nil: tFalse, Fn: x, Name: x.Name()}
	case *ssa.Global:
		o := fr.ex.globals[x]
		if o == nil {
			o = fr.ex.namedObj("global."+x.Pkg.Pkg.Name()+"."+x.Name(), x.Type().(*types.Pointer).Elem())
			fr.ex.globals[x] = o
		}
		if _, have := st.heap[o]; !have {
			if cm := fr.ex.constGlobalMap(x); cm != nil {
				mt := under(o.T).(*types.Map)
				st.heap[o] = &MapV{Nil: tFalse, Obj: cm.obj, K: mt.Key(), V: mt.Elem()}
				fr.ex.constMapObjs[cm.obj] = cm.val
			}
		}
		return &PtrV{Nil: tFalse, Obj: o, Elem: x.Type().(*types.Pointer).Elem()}
	case *ssa.Builtin:
		return &FuncV{Nil: tFalse, Name: "builtin:" + x.Name()}
	}
	if val, ok := st.vals[v]; ok {
		return val
	}
	panic(abortf("value %s (%T) not defined on this path", v.Name(), v))
}

func (fr *FnRun) term(st *State, v ssa.Value) *Term {
	val := fr.value(st, v)
	t, ok := val.(*Term)
	if !ok {
		panic(abortf("scalar expected for %s, got %T", v.Name(), val))
	}
	return t
}

func (ex *Exec) constVal(c *ssa.Const) Val {
	t := c.Type()
	if c.Value == nil {
		return ex.zeroVal(t, "const")
	}
	switch c.Value.Kind() {
	case constant.Bool:
		return Bool(constant.BoolVal(c.Value))
	case constant.Int:
		bi, ok := constant.Val(c.Value).(*big.Int)
		if !ok {
			i64, _ := constant.Int64Val(c.Value)
			bi = big.NewInt(i64)
		}
		if isFloat(t) {
			// float constant with integral value: keep an uninterpreted bit pattern
			return App("fconst_"+sanitize(c.Value.ExactString()), SInt)
		}
		return IntB(bi)
	case constant.String:
		s := constant.StringVal(c.Value)
		return ex.strConst(s)
	case constant.Float:
		n := "fconst_" + sanitize(c.Value.ExactString())
		ex.UFs[n] = &UFSig{Name: n, Ret: SInt}
		return App(n, SInt)
	}
	return &OpaqueV{T: t, Name: "const"}
}

func sanitize(s string) string {
	r := strings.NewReplacer("/", "_", ".", "_", "-", "m", "+", "p", " ", "_")
	return r.Replace(s)
}

func (ex *Exec) strConst(s string) *StrV {
	if len(s) <= 64 {
		arr := emptyBytes()
		ex.ensureZeros(SInt)
		for i := 0; i < len(s); i++ {
			arr = Store(arr, Int(int64(i)), Int(int64(s[i])))
		}
		return &StrV{Arr: arr, Len: Int(int64(len(s)))}
	}
	n := "strlit_" + hashScript(s)
	ex.UFs[n] = &UFSig{Name: n, Ret: SArrII}
	return &StrV{Arr: App(n, SArrII), Len: Int(int64(len(s)))}
}

func firstFrames(s string) string {
	lines := strings.Split(s, "\n")
	var out []string
	seenPanic := false
	for _, l := range lines {
		if strings.HasPrefix(l, "panic(") {
			seenPanic = true
			continue
		}
		if !seenPanic {
			continue
		}
		if strings.Contains(l, "/govc/cmd/govc/") {
			out = append(out, strings.TrimSpace(l))
			if len(out) >= 5 {
				break
			}
		}
	}
	return strings.Join(out, " <- ")
}

type internalErr struct{ msg, where string }

// wrapInternal captures the origin of an unexpected panic at the first recover.
func wrapInternal(r interface{}) interface{} {
	switch x := r.(type) {
	case *abortErr, *internalErr, pathStop:
		return x
	}
	buf := make([]byte, 1<<16)
	n := runtime.Stack(buf, false)
	return &internalErr{msg: fmt.Sprint(r), where: firstFrames(string(buf[:n]))}
}

// collectLocals maps source-level local names to the SSA values that carry them.
func (fr *FnRun) collectLocals() {
	fr.locals = map[string][]ssa.Value{}
	for _, b := range fr.fn.Blocks {
		for _, in := range b.Instrs {
			d, ok := in.(*ssa.DebugRef)
			if !ok {
				continue
			}
			if d.IsAddr {
				// address-taken local: the name denotes its cell
				if _, isAlloc := d.X.(*ssa.Alloc); !isAlloc {
					continue
				}
			}
			id, ok := d.Expr.(*ast.Ident)
			if !ok {
				continue
			}
			dup := false
			for _, v := range fr.locals[id.Name] {
				if v == d.X {
					dup = true
				}
			}
			if !dup {
				fr.locals[id.Name] = append(fr.locals[id.Name], d.X)
			}
		}
	}
}

// bindLocals adds to vars every local name whose current value is determined:
// among the candidate values defined on this path, the one defined last in
// dominance order (straight-line reassignment); ambiguous names are skipped.
func (fr *FnRun) bindLocals(st *State, vars map[string]Val) {
	fr.bindLocalsAt(st, vars, nil)
}

// bindLocalsAt: as bindLocals, for a known program point: only definitions that dominate `at`
// can be the current value of a name there (a value assigned in one arm of an if is not the
// value after the join - the phi is).
func (fr *FnRun) bindLocalsAt(st *State, vars map[string]Val, at ssa.Instruction) {
	dominatesAt := func(v ssa.Value) bool {
		if at == nil {
			return true
		}
		in, ok := v.(ssa.Instruction)
		if !ok {
			return true // parameters, free variables
		}
		if in.Block() == at.Block() {
			return indexOf(in.Block().Instrs, in) < indexOf(at.Block().Instrs, at)
		}
		return in.Block().Dominates(at.Block())
	}
	for name, cands := range fr.locals {
		if _, taken := vars[name]; taken {
			// a parameter: in a call-site assertion its CURRENT value is meant (parameters are
			// mutable; entry(p) names the value at entry) - if it was spilled to a cell, read the cell
			spilled := false
			if at != nil {
				for _, c := range cands {
					if al, isAlloc := c.(*ssa.Alloc); isAlloc && isSpillOfParam(al, name) {
						if _, ok := st.vals[c]; ok && dominatesAt(c) {
							spilled = true
							if pv, ok := st.vals[c].(*PtrV); ok {
								vars[name] = fr.ex.load(st, pv)
							}
						}
					}
				}
			}
			_ = spilled
			continue
		}
		var defined []ssa.Value
		ambiguous := false
		for _, c := range cands {
			if _, ok := st.vals[c]; ok && dominatesAt(c) {
				defined = append(defined, c)
			}
		}
		if ambiguous || len(defined) == 0 {
			continue
		}
		// an address-taken local lives in its cell: the cell always holds the current value, a
		// value recorded at the declaration would be stale after a field assignment
		var cell ssa.Value
		for _, c := range defined {
			if _, isAlloc := c.(*ssa.Alloc); isAlloc {
				cell = c
			}
		}
		if cell != nil {
			vars[name] = st.vals[cell]
			continue
		}
		best := defined[0]
		ok := true
		for _, c := range defined[1:] {
			switch {
			case defBefore(best, c):
				best = c
			case defBefore(c, best):
			default:
				ok = false
			}
		}
		if ok {
			vars[name] = st.vals[best]
		}
	}
}

// isSpillOfParam: the cell the builder creates for an address-taken parameter (`t = local T (p); *t = p`).
func isSpillOfParam(al *ssa.Alloc, name string) bool {
	if al.Referrers() == nil {
		return false
	}
	for _, r := range *al.Referrers() {
		if st, ok := r.(*ssa.Store); ok && st.Addr == al {
			if p, ok := st.Val.(*ssa.Parameter); ok && p.Name() == name {
				return true
			}
		}
	}
	return false
}

// defBefore: a's definition strictly precedes b's in dominance order.
func defBefore(a, b ssa.Value) bool {
	ia, ok1 := a.(ssa.Instruction)
	ib, ok2 := b.(ssa.Instruction)
	if !ok1 {
		return ok2 // parameters precede instructions
	}
	if !ok2 {
		return false
	}
	if ia.Block() == ib.Block() {
		return indexOf(ia.Block().Instrs, ia) < indexOf(ib.Block().Instrs, ib)
	}
	return ia.Block().Dominates(ib.Block())
}

// loopSpecFor picks the loop spec of the current build variant (tagged specs win).
func (ex *Exec) loopSpecFor(ctr *Contract, ordinal int) *LoopSpec {
	if ctr == nil {
		return nil
	}
	variant := "default"
	if ex != nil && ex.P != nil && strings.Contains(ex.P.Tags, "purego") {
		variant = "purego"
	}
	if s, ok := ctr.VLoops[fmt.Sprintf("%d|%s", ordinal, variant)]; ok {
		return s
	}
	if ctr.Loops != nil {
		return ctr.Loops[ordinal]
	}
	return nil
}

func (fr *FnRun) tryEvalBool(x *Expr, env *Env) (t *Term, msg string) {
	defer func() {
		if r := recover(); r != nil {
			if a, ok := r.(*abortErr); ok && strings.Contains(a.msg, "unknown identifier") {
				t, msg = nil, a.msg
				return
			}
			panic(r)
		}
	}()
	return fr.evalBool(x, env), ""
}

// exprConjuncts splits a contract expression at top-level &&.
func exprConjuncts(e *Expr) []*Expr {
	if e.Kind == "bin" && e.Op == "&&" {
		return append(exprConjuncts(e.X), exprConjuncts(e.Y)...)
	}
	return []*Expr{e}
}
