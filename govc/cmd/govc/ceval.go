package main

// Evaluation of contract expressions against a symbolic state.

import (
	"fmt"
	"go/constant"
	"sort"

	"golang.org/x/tools/go/ssa"
	"go/types"
	"math/big"
	"strings"
)

type Env struct {
	st   *State
	old  *State
	vars map[string]Val
	fr   *FnRun
	pkg  string // package whose constants are in scope
	args map[string]Val // set while a CALLEE's contract is applied: its parameters at the call
	assuming bool       // the clause is being ASSUMED (a callee's postcondition), not proved
}

func (e *Env) with(name string, v Val) *Env {
	n := &Env{st: e.st, old: e.old, fr: e.fr, pkg: e.pkg, args: e.args, assuming: e.assuming, vars: map[string]Val{}}
	for k, x := range e.vars {
		n.vars[k] = x
	}
	n.vars[name] = v
	return n
}

func (e *Env) inOld() *Env {
	return &Env{st: e.old, old: e.old, vars: e.vars, fr: e.fr, pkg: e.pkg, args: e.args}
}

func (ex *Exec) declareSpecFuncs() error {
	for name, f := range ex.DB.Funcs {
		if f.Body != nil {
			continue // macro
		}
		sig := &UFSig{Name: name}
		for _, ps := range f.PSorts {
			s, err := sortByName(ps)
			if err != nil {
				return fmt.Errorf("spec func %s: %v", name, err)
			}
			sig.Args = append(sig.Args, s)
		}
		r, err := sortByName(f.Ret)
		if err != nil {
			return fmt.Errorf("spec func %s: %v", name, err)
		}
		sig.Ret = r
		ex.UFs[name] = sig
	}
	// axioms are closed formulas over spec functions
	dummy := &FnRun{ex: ex}
	for _, ax := range ex.DB.Axioms {
		var t *Term
		func() {
			defer func() {
				if r := recover(); r != nil {
					if a, ok := r.(*abortErr); ok {
						t = nil
						fmt.Printf("axiom %s: %s\n", ax.Name, a.msg)
						return
					}
					panic(r)
				}
			}()
			t = dummy.evalBool(ax.E, &Env{st: &State{vals: nil, heap: map[*Obj]Val{}}, vars: map[string]Val{}, fr: dummy})
		}()
		if t == nil {
			return fmt.Errorf("axiom %s could not be evaluated", ax.Name)
		}
		if len(ax.When) > 0 && t.Op == "forall" && len(t.Pats) == 0 {
			// trigger: an application of the first `when` symbol that mentions every bound variable
			if p := findAppPattern(t.Args[0], ax.When[0], t.Bound); p != nil {
				t = &Term{Op: "forall", Sort: SBool, Bound: t.Bound, Args: t.Args, Pats: []*Term{p}}
			}
		}
		ex.AxiomTs = append(ex.AxiomTs, t)
		if len(ax.When) > 0 {
			AxiomWhen[t] = ax.When
		}
	}
	return nil
}

func (fr *FnRun) evalBool(e *Expr, env *Env) *Term {
	// specifications may mention arrays that were appended to (their old cells are unchanged)
	if env.st != nil && env.st.stale != nil {
		saved := env.st.stale
		env.st.stale = nil
		defer func() { env.st.stale = saved }()
	}
	v := fr.eval(e, env)
	t, ok := v.(*Term)
	if !ok {
		panic(abortf("contract expression %q is not a formula (%T)", e, v))
	}
	if t.Sort != SBool {
		panic(abortf("contract expression %q has sort %s, want Bool", e, t.Sort))
	}
	return t
}

func (fr *FnRun) evalTerm(e *Expr, env *Env) *Term {
	v := fr.eval(e, env)
	t, ok := v.(*Term)
	if !ok {
		panic(abortf("contract expression %q is not a scalar (%T)", e, v))
	}
	return t
}

func (fr *FnRun) pkgConst(pkgPath, name string) (Val, bool) {
	ex := fr.ex
	sp := ex.P.ByPkg[pkgPath]
	if sp == nil {
		return nil, false
	}
	obj := sp.Pkg.Scope().Lookup(name)
	c, ok := obj.(*types.Const)
	if !ok {
		return nil, false
	}
	switch c.Val().Kind() {
	case constant.Int:
		bi, ok := constant.Val(c.Val()).(*big.Int)
		if !ok {
			i64, _ := constant.Int64Val(c.Val())
			bi = big.NewInt(i64)
		}
		return IntB(bi), true
	case constant.Bool:
		return Bool(constant.BoolVal(c.Val())), true
	case constant.String:
		return ex.strConst(constant.StringVal(c.Val())), true
	}
	return nil, false
}

func (fr *FnRun) envPkg(env *Env) string {
	if env.pkg != "" {
		return env.pkg
	}
	if fr.fn != nil && fr.fn.Pkg != nil {
		return fr.fn.Pkg.Pkg.Path()
	}
	return ""
}

func (fr *FnRun) eval(e *Expr, env *Env) Val {
	ex := fr.ex
	switch e.Kind {
	case "int":
		return IntB(e.Int)
	case "bool":
		return Bool(e.Name == "true")
	case "str":
		return ex.strConst(e.Str)
	case "nil":
		return nilMarker{}
	case "ident":
		if v, ok := env.vars[e.Name]; ok {
			if cr, isCell := v.(*CellRef); isCell {
				return ex.force(env.st, ex.load(env.st, cr.P))
			}
			return ex.force(env.st, v)
		}
		if v, ok := fr.pkgConst(fr.envPkg(env), e.Name); ok {
			return v
		}
		if f, ok := ex.DB.Funcs[e.Name]; ok && len(f.Params) == 0 {
			return fr.callSpec(f, nil, env)
		}
		// package-level variable
		if sp := ex.P.ByPkg[fr.envPkg(env)]; sp != nil {
			if g, ok := sp.Members[e.Name].(*ssa.Global); ok {
				gp := fr.value(env.st, g).(*PtrV)
				return ex.force(env.st, ex.load(env.st, gp))
			}
		}
		panic(abortf("contract: unknown identifier %q", e.Name))
	case "old":
		return fr.eval(e.X, env.inOld())
	case "un":
		switch e.Op {
		case "!":
			return Not(fr.evalBool(e.X, env))
		case "-":
			return Neg(fr.evalTerm(e.X, env))
		case "*":
			v := ex.force(env.st, fr.eval(e.X, env))
			if iv, ok := v.(*IfaceV); ok && iv.Pay != nil {
				v = ex.force(env.st, iv.Pay)
			}
			p, ok := v.(*PtrV)
			if !ok {
				panic(abortf("contract: * of %T", v))
			}
			if p.Obj == nil {
				return ex.freshVal(p.Elem, ex.fresh("nilderef"))
			}
			return ex.load(env.st, p)
		}
	case "bin":
		return fr.evalBin(e, env)
	case "sel":
		// package-qualified constant
		if e.X.Kind == "ident" {
			if _, isVar := env.vars[e.X.Name]; !isVar {
				for path := range ex.P.ByPkg {
					if path == e.X.Name || strings.HasSuffix(path, "/"+e.X.Name) {
						if v, ok := fr.pkgConst(path, e.Name); ok {
							return v
						}
					}
				}
			}
		}
		return fr.selField(fr.eval(e.X, env), e.Name, env)
	case "index":
		x := fr.eval(e.X, env)
		i := fr.evalTerm(e.Y, env)
		return fr.indexVal(x, i, env)
	case "call":
		return fr.evalCall(e, env)
	case "forall", "exists":
		return fr.evalQuant(e, env)
	}
	panic(abortf("contract: cannot evaluate %q (%s)", e, e.Kind))
}

type nilMarker struct{}

func (fr *FnRun) evalBin(e *Expr, env *Env) Val {
	switch e.Op {
	case "&&":
		return And(fr.evalBool(e.X, env), fr.evalBool(e.Y, env))
	case "||":
		return Or(fr.evalBool(e.X, env), fr.evalBool(e.Y, env))
	case "==>":
		return Implies(fr.evalBool(e.X, env), fr.evalBool(e.Y, env))
	case "<==>":
		return Eq(fr.evalBool(e.X, env), fr.evalBool(e.Y, env))
	case "==", "!=":
		a, b := fr.eval(e.X, env), fr.eval(e.Y, env)
		r := fr.specEq(env.st, a, b)
		if e.Op == "!=" {
			return Not(r)
		}
		return r
	}
	a, b := fr.evalTerm(e.X, env), fr.evalTerm(e.Y, env)
	switch e.Op {
	case "+":
		return Add(a, b)
	case "-":
		return Sub(a, b)
	case "*":
		return Mul(a, b)
	case "/":
		return Div(a, b)
	case "%":
		return Mod(a, b)
	case "<":
		return Lt(a, b)
	case "<=":
		return Le(a, b)
	case ">":
		return Lt(b, a)
	case ">=":
		return Le(b, a)
	}
	panic(abortf("contract: operator %s", e.Op))
}

func (fr *FnRun) specEq(st *State, a, b Val) *Term {
	if _, ok := a.(nilMarker); ok {
		a, b = b, a
	}
	if _, ok := b.(nilMarker); ok {
		switch x := a.(type) {
		case *PtrV:
			return x.Nil
		case *IfaceV:
			return x.Nil
		case *SliceV:
			return x.Nil
		case *MapV:
			return x.Nil
		case *FuncV:
			return x.Nil
		case nilMarker:
			return tTrue
		}
		panic(abortf("contract: comparison of %T with nil", a))
	}
	if sa, ok := a.(*SliceV); ok {
		if sb, ok := b.(*SliceV); ok {
			// specification equality of slices: same length and same elements
			return fr.sliceEq(st, sa, sb)
		}
	}
	// an abstract (uninterpreted-sort) ghost element compared with a structured Go value: the
	// abstraction carries no information about it (unknown, never assumed true or false)
	ta, aok := a.(*Term)
	tb, bok := b.(*Term)
	if aok != bok {
		t := ta
		if bok {
			t = tb
		}
		if strings.HasPrefix(string(t.Sort), "U_") {
			return Var(fr.ex.fresh("abstract_eq"), SBool)
		}
	}
	return fr.valEq(st, a, b)
}

// sliceEq: extensional equality (length and scalar elements).
func (fr *FnRun) sliceEq(st *State, a, b *SliceV) *Term {
	da, ok1 := fr.sliceData(st, a).(*Term)
	db, ok2 := fr.sliceData(st, b).(*Term)
	if !ok1 || !ok2 {
		panic(abortf("contract: slice equality over non-scalar elements"))
	}
	k := Var(fr.ex.fresh("k!eq"), SInt)
	return And(Eq(a.Len, b.Len), Forall([]*Term{k}, Implies(And(Le(Int(0), k), Lt(k, a.Len)),
		Eq(Select(da, Add(a.Off, k)), Select(db, Add(b.Off, k))))))
}

func (fr *FnRun) selField(v Val, name string, env *Env) Val {
	ex := fr.ex
	v = ex.force(env.st, v)
	switch x := v.(type) {
	case *PtrV:
		if x.Obj == nil {
			// field of the nil literal: an arbitrary value (specifications are total)
			if x.Elem != nil {
				return fr.selField(ex.freshVal(x.Elem, ex.fresh("nilderef")), name, env)
			}
			panic(abortf("contract: field %s of nil pointer", name))
		}
		return fr.selField(ex.load(env.st, x), name, env)
	case *StructV:
		if g, ok := x.Ghost[name]; ok {
			return g
		}
		if s, ok := under(x.T).(*types.Struct); ok && x.F != nil {
			for i := 0; i < s.NumFields(); i++ {
				if s.Field(i).Name() == name {
					return ex.force(env.st, x.F[i])
				}
			}
			// promoted fields of embedded structs
			for i := 0; i < s.NumFields(); i++ {
				if s.Field(i).Embedded() {
					func() {
						defer func() { recover() }()
						v = fr.selField(x.F[i], name, env)
					}()
					if v != Val(x) {
						return v
					}
				}
			}
		}
		if d, ok := ex.DB.Delegates[TypeKey(x.T)]; ok {
			if s, ok := under(x.T).(*types.Struct); ok {
				for i := 0; i < s.NumFields(); i++ {
					if s.Field(i).Name() == d {
						return fr.selField(ex.force(env.st, x.F[i]), name, env)
					}
				}
			}
		}
		if env.assuming {
			// an ASSUMED clause written for one instantiation of a generic dependency (errors.As into a
			// *net.OpError target) applied to another: the ghost does not exist on this type, the
			// clause then constrains only a fresh value (it says nothing)
			for _, gs := range ex.DB.Ghosts {
				for _, g := range gs {
					if g.Name == name {
						if srt, err := sortByName(g.Sort); err == nil {
							return Var(ex.fresh("noghost."+name), srt)
						}
					}
				}
			}
		}
		panic(abortf("contract: no field %s in %s", name, x.T))
	case *IfaceV:
		if x.Pay != nil {
			return fr.selField(x.Pay, name, env)
		}
		if x.Obj != nil {
			return fr.selField(ex.heapGet(env.st, x.Obj), name, env)
		}
		// an interface value without an object (the nil literal, a value merged from different
		// objects): a ghost field of it is an arbitrary value (specifications are total)
		for _, gs := range ex.DB.Ghosts {
			for _, g := range gs {
				if g.Name == name {
					if srt, err := sortByName(g.Sort); err == nil {
						return Var(ex.fresh("noobj."+name), srt)
					}
				}
			}
		}
	}
	panic(abortf("contract: field %s of %T", name, v))
}

func (fr *FnRun) indexVal(x Val, i *Term, env *Env) Val {
	ex := fr.ex
	x = ex.force(env.st, x)
	switch v := x.(type) {
	case *SliceV:
		if v.ViewW > 0 {
			return fr.viewByte(env.st, v, i)
		}
		return ex.readElem(env.st, fr.sliceData(env.st, v), v.Elem, Add(v.Off, i))
	case *StrV:
		return Select(v.Arr, i)
	case *ArrayV:
		return ex.readElem(env.st, v.Data, v.Elem, i)
	case *PtrV:
		return fr.indexVal(ex.load(env.st, v), i, env)
	case *MapV:
		if v.Nil.IsTrue() || v.Obj == nil {
			panic(abortf("contract: index of a nil map"))
		}
		mo := fr.mapObj(env.st, v)
		return ex.readElem(env.st, mo.Val, v.V, i)
	case *Term:
		if v.Sort.IsArr() {
			return Select(v, i)
		}
	}
	panic(abortf("contract: index of %T", x))
}

func (fr *FnRun) evalQuant(e *Expr, env *Env) Val {
	ex := fr.ex
	var bound []*Term
	cur := env
	for _, name := range e.Vars {
		srt := SInt
		if i := strings.Index(name, ":"); i >= 0 {
			s2, err := sortByName(name[i+1:])
			if err != nil {
				panic(abortf("contract: %v", err))
			}
			srt = s2
			name = name[:i]
		}
		b := Var(ex.fresh(name+"!q"), srt)
		bound = append(bound, b)
		cur = cur.with(name, b)
	}
	var rng *Term = tTrue
	if e.X != nil {
		lo := fr.evalTerm(e.X, env)
		hi := fr.evalTerm(e.Y, env)
		// a small constant range is expanded: ground facts instead of a quantifier whose pattern
		// `a[p + k]` would miss the instance k = 0 (written `a[p]`)
		if e.Kind == "forall" && len(e.Vars) == 1 && !strings.Contains(e.Vars[0], ":") && lo.IsInt() && hi.IsInt() && lo.I.IsInt64() && hi.I.IsInt64() && hi.I.Int64()-lo.I.Int64() <= 16 && e.Z != nil && !(e.Z.Kind == "call" && e.Z.X != nil && e.Z.X.Kind == "ident" && (e.Z.X.Name == "trigger" || e.Z.X.Name == "triggers")) {
			var cs []*Term
			for k := lo.I.Int64(); k < hi.I.Int64(); k++ {
				cs = append(cs, fr.evalBool(e.Z, env.with(e.Vars[0], Int(k))))
			}
			return And(cs...)
		}
		var cs []*Term
		for _, b := range bound {
			cs = append(cs, Le(lo, b), Lt(b, hi))
		}
		rng = And(cs...)
	}
	// forall x :: trigger(pattern..., body): an explicit (multi-)pattern
	var trig []*Term
	bodyE := e.Z
	altTrig := false
	if bodyE.Kind == "call" && bodyE.X.Kind == "ident" && bodyE.X.Name == "triggers" {
		// triggers(p1, p2, ..., body): ALTERNATIVE patterns (any one of them instantiates)
		altTrig = true
		bodyE = &Expr{Kind: "call", X: &Expr{Kind: "ident", Name: "trigger"}, Args: bodyE.Args}
	}
	if bodyE.Kind == "call" && bodyE.X.Kind == "ident" && bodyE.X.Name == "trigger" && len(bodyE.Args) >= 2 {
		for _, pa := range bodyE.Args[:len(bodyE.Args)-1] {
			if pt, ok := fr.ex.force(cur.st, fr.eval(pa, cur)).(*Term); ok {
				trig = append(trig, pt)
			}
		}
		bodyE = bodyE.Args[len(bodyE.Args)-1]
	}
	body := fr.evalBool(bodyE, cur)
	if e.Kind == "forall" {
		q := Forall(bound, Implies(rng, body))
		if q.Op == "forall" && len(trig) > 0 {
			q.Pats = trig
			q.AltPats = altTrig
			return q
		}
		if q.Op == "forall" {
			if ps := selectPatterns(q.Args[0], bound); len(ps) > 0 && false {
				q.Pats, q.AltPats = ps, true
			}
		}
		return q
	}
	return Exists(bound, And(rng, body))
}

func (fr *FnRun) evalCall(e *Expr, env *Env) Val {
	ex := fr.ex
	if e.X.Kind != "ident" {
		panic(abortf("contract: call of non-identifier %q", e.X))
	}
	name := e.X.Name
	arg := func(i int) Val { return fr.eval(e.Args[i], env) }
	targ := func(i int) *Term { return fr.evalTerm(e.Args[i], env) }
	need := func(n int) {
		if len(e.Args) != n {
			panic(abortf("contract: %s expects %d arguments", name, n))
		}
	}
	switch name {
	case "len":
		need(1)
		switch v := ex.force(env.st, arg(0)).(type) {
		case *SliceV:
			return v.Len
		case *StrV:
			return v.Len
		case *ArrayV:
			return Int(v.N)
		case *PtrV:
			if lv, ok := ex.load(env.st, v).(*SliceV); ok {
				return lv.Len
			}
		case *MapV:
			return fr.mapLen(env.st, v)
		}
		panic(abortf("contract: len of %T (%s)", arg(0), e.Args[0]))
	case "has":
		// has(m, k): the map m holds key k
		need(2)
		mv, ok := ex.force(env.st, arg(0)).(*MapV)
		if !ok {
			panic(abortf("contract: has() of %T", arg(0)))
		}
		if mv.Nil.IsTrue() || mv.Obj == nil {
			return tFalse
		}
		return And(Not(mv.Nil), Select(fr.mapObj(env.st, mv).Has, targ(1)))
	case "cap":
		need(1)
		if v, ok := ex.force(env.st, arg(0)).(*SliceV); ok {
			return v.Cap
		}
		panic(abortf("contract: cap of %T", arg(0)))
	case "floordiv":
		need(2)
		a, b := targ(0), targ(1)
		if b.IsInt() && b.I.Sign() > 0 {
			return Div(a, b)
		}
		return Ite(Lt(Int(0), b), Div(a, b), Div(Neg(a), Neg(b)))
	case "floormod":
		need(2)
		return Mod(targ(0), targ(1))
	case "tdiv":
		need(2)
		return truncDiv(targ(0), targ(1))
	case "tmod":
		need(2)
		a, b := targ(0), targ(1)
		return Sub(a, Mul(b, truncDiv(a, b)))
	case "min":
		need(2)
		a, b := targ(0), targ(1)
		return Ite(Le(a, b), a, b)
	case "max":
		need(2)
		a, b := targ(0), targ(1)
		return Ite(Le(a, b), b, a)
	case "abs":
		need(1)
		a := targ(0)
		return Ite(Le(Int(0), a), a, Neg(a))
	case "ite":
		need(3)
		c := fr.evalBool(e.Args[0], env)
		a, b := arg(1), arg(2)
		ta, ok1 := a.(*Term)
		tb, ok2 := b.(*Term)
		if !ok1 || !ok2 {
			panic(abortf("contract: ite over non-scalars"))
		}
		return Ite(c, ta, tb)
	case "u8", "u16", "u32", "u64", "i8", "i16", "i32", "i64":
		need(1)
		var bits uint
		fmt.Sscanf(name[1:], "%d", &bits)
		return wrapTo(targ(0), bits, name[0] == 'u')
	case "pow2":
		need(1)
		a := targ(0)
		if a.IsInt() && a.I.IsInt64() {
			return IntB(Pow2(uint(a.I.Int64())))
		}
		panic(abortf("contract: pow2 of non-constant"))
	case "pow10":
		need(1)
		a := targ(0)
		if a.IsInt() && a.I.IsInt64() {
			return IntB(new(big.Int).Exp(big.NewInt(10), a.I, nil))
		}
		// small table as ite chain
		r := Int(0)
		for k := int64(18); k >= 0; k-- {
			r = Ite(Eq(a, Int(k)), IntB(new(big.Int).Exp(big.NewInt(10), big.NewInt(k), nil)), r)
		}
		return r
	case "isnil":
		need(1)
		return fr.specEq(env.st, arg(0), nilMarker{})
	case "calls":
		// calls("pattern"): how many calls matching the pattern this function has made so far on the
		// current path (see initCallCounters)
		if len(e.Args) != 1 || e.Args[0].Kind != "str" {
			panic(abortf("contract: calls(\"pattern\")"))
		}
		if fr.callsObj == nil {
			panic(abortf("contract: calls() is only available in postconditions and call-site assertions of the function under verification"))
		}
		sv, ok := env.st.heap[fr.callsObj].(*StructV)
		if !ok {
			panic(abortf("contract: calls(%q): the counters were lost on this path (verifier bug)", e.Args[0].Str))
		}
		if v, ok := sv.Ghost[e.Args[0].Str]; ok {
			return v
		}
		panic(abortf("contract: calls(%q): unknown pattern", e.Args[0].Str))
	case "each":
		// each(s, e, pred): every element of the reference-typed slice s satisfies pred (with e bound
		// to the element).  Only in ASSUMED postconditions (dependency contracts): the fact is attached
		// to the backing array and assumed for each element as it is read.
		if len(e.Args) != 3 || e.Args[1].Kind != "ident" {
			panic(abortf("contract: each(slice, name, predicate)"))
		}
		if !env.assuming {
			panic(abortf("contract: each() can only appear in an assumed postcondition"))
		}
		sv, ok := ex.force(env.st, fr.eval(e.Args[0], env)).(*SliceV)
		if !ok || sv.Arr == nil {
			panic(abortf("contract: each() of a value that is not a slice with a backing array"))
		}
		av, ok := env.st.heap[sv.Arr].(*ArrayV)
		if !ok {
			av = fr.arrOf(env.st, sv)
		}
		ra, ok := av.Data.(*RefArr)
		if !ok {
			panic(abortf("contract: each() needs a slice of reference-typed elements"))
		}
		body, name, venv := e.Args[2], e.Args[1].Name, env
		ra.ElemInv = func(st *State, v Val) {
			ne := venv.with(name, v)
			ne.st, ne.old = st, st
			st.assume(fr.evalBool(body, ne))
		}
		return tTrue
	case "implements":
		// implements(x, T): the comma-ok result of the type assertion x.(T), T an interface or type of
		// the function's package (the same term the executor uses for the assertion in the code)
		// implements(x, *T): the dynamic type is the pointer type *T
		ptrTo := false
		if len(e.Args) == 2 && e.Args[1].Kind == "un" && e.Args[1].Op == "*" && e.Args[1].X != nil && e.Args[1].X.Kind == "ident" {
			ptrTo = true
			e = &Expr{Kind: e.Kind, X: e.X, Args: []*Expr{e.Args[0], e.Args[1].X}}
		}
		if len(e.Args) != 2 || e.Args[1].Kind != "ident" {
			panic(abortf("contract: implements(value, TypeName)"))
		}
		iv, ok := ex.force(env.st, fr.eval(e.Args[0], env)).(*IfaceV)
		if !ok {
			panic(abortf("contract: implements() of a non-interface value"))
		}
		pkg := fr.fn.Pkg
		if pkg == nil && fr.fn.Origin() != nil {
			pkg = fr.fn.Origin().Pkg
		}
		var at types.Type
		if pkg != nil {
			if o := pkg.Pkg.Scope().Lookup(e.Args[1].Name); o != nil {
				at = o.Type()
			}
		}
		if at == nil {
			panic(abortf("contract: implements(): no type %s", e.Args[1].Name))
		}
		if ptrTo {
			at = types.NewPointer(at)
		}
		it, toIface := under(at).(*types.Interface)
		switch {
		case iv.Nil.IsTrue():
			return tFalse
		case iv.Dyn != nil && toIface:
			if types.Implements(iv.Dyn, it) {
				return Not(iv.Nil)
			}
			return tFalse
		case iv.Dyn != nil:
			if types.Identical(iv.Dyn, at) {
				return Not(iv.Nil)
			}
			return tFalse
		}
		base := "assert"
		if iv.Obj != nil {
			base = iv.Obj.Name
		}
		tn := sanitize(types.TypeString(at, func(p *types.Package) string { return p.Name() }))
		return And(Not(iv.Nil), Var(base+".is."+tn, SBool))
	case "entry":
		// entry(p): the value parameter p had when the function was entered (parameters are mutable in Go)
		if len(e.Args) != 1 || e.Args[0].Kind != "ident" {
			panic(abortf("contract: entry(parameter)"))
		}
		if env.args != nil {
			// a callee's contract applied at a call site: its parameters are the call's arguments
			if v, ok := env.args[e.Args[0].Name]; ok {
				return ex.force(env.old, v)
			}
			panic(abortf("contract: entry(%s): no such parameter of the callee", e.Args[0].Name))
		}
		if fr.env0 != nil {
			if v, ok := fr.env0[e.Args[0].Name]; ok {
				return ex.force(env.old, v)
			}
		}
		panic(abortf("contract: entry(%s): no such parameter", e.Args[0].Name))
	case "allfresh":
		// allfresh(pkg.Type, ghost): the ghost flag holds for every opaque object of that interface
		// type that came into existence during this call (e.g. every connection dialed by it)
		if len(e.Args) != 2 || e.Args[1].Kind != "ident" {
			panic(abortf("contract: allfresh(Type, ghostfield)"))
		}
		tn := e.Args[0].Src
		if tn == "" && e.Args[0].Kind == "sel" && e.Args[0].X.Kind == "ident" {
			tn = e.Args[0].X.Name + "." + e.Args[0].Name
		}
		var cs []*Term
		var objs []*Obj
		for o := range env.st.heap {
			objs = append(objs, o)
		}
		sort.Slice(objs, func(i, j int) bool { return objs[i].ID < objs[j].ID })
		for _, o := range objs {
			if o.ID <= fr.entryMaxObj || !strings.HasSuffix(o.Name, ".dyn") {
				continue
			}
			if k := TypeKey(o.T); k != tn && !strings.HasSuffix(k, "/"+tn) {
				continue
			}
			if gs, ok := env.st.heap[o].(*StructV); ok {
				if g, ok := gs.Ghost[e.Args[1].Name].(*Term); ok {
					cs = append(cs, g)
				}
			}
		}
		return And(cs...)
	case "arrayof":
		// arrayof(s): the SMT array holding the elements of s's backing array (index = offset(s) + i)
		need(1)
		switch v := ex.force(env.st, arg(0)).(type) {
		case *SliceV:
			if v.ViewW > 0 {
				return fr.viewImage(env.st, v)
			}
			d, ok := fr.sliceData(env.st, v).(*Term)
			if !ok {
				panic(abortf("contract: arrayof() of non-scalar slice"))
			}
			return d
		case *StrV:
			return v.Arr
		}
		panic(abortf("contract: arrayof of %T", arg(0)))
	case "fieldarr":
		// fieldarr(s, F): the SMT array holding field F of every element of the struct slice s
		need(2)
		sv, ok := ex.force(env.st, arg(0)).(*SliceV)
		if !ok || e.Args[1].Kind != "ident" {
			panic(abortf("contract: fieldarr(slice, Field) expected"))
		}
		sa, ok := fr.sliceData(env.st, sv).(*StructArr)
		if !ok {
			panic(abortf("contract: fieldarr() of a slice whose elements are not structs"))
		}
		stt := under(sa.T).(*types.Struct)
		for i := 0; i < stt.NumFields(); i++ {
			if stt.Field(i).Name() == e.Args[1].Name {
				if t, ok := sa.F[i].(*Term); ok {
					return t
				}
				panic(abortf("contract: fieldarr(): field %s is not scalar", e.Args[1].Name))
			}
		}
		panic(abortf("contract: fieldarr(): no field %s", e.Args[1].Name))
	case "offset":
		need(1)
		switch v := ex.force(env.st, arg(0)).(type) {
		case *SliceV:
			return v.Off
		case *StrV:
			return Int(0)
		}
		panic(abortf("contract: offset of %T", arg(0)))
	case "bytes":
		// bytes(s): the (Array Int Int) holding s's elements starting at index 0
		need(1)
		switch v := ex.force(env.st, arg(0)).(type) {
		case *StrV:
			return v.Arr
		case *SliceV:
			d, ok := fr.sliceData(env.st, v).(*Term)
			if !ok {
				panic(abortf("contract: bytes() of non-scalar slice"))
			}
			if v.Off.IsInt() && v.Off.I.Sign() == 0 {
				return d
			}
			return fr.shifted(env.st, d, v.Off, v.Len)
		case *ArrayV:
			if d, ok := v.Data.(*Term); ok {
				return d
			}
		}
		panic(abortf("contract: bytes of %T", arg(0)))
	}
	switch name {
	case "byte16", "byte32", "byte64", "unle16", "unle32", "unle64":
		var bits int
		fmt.Sscanf(name[4:], "%d", &bits)
		ex.byteFns(bits)
		var ts []*Term
		for i := range e.Args {
			ts = append(ts, targ(i))
		}
		return App(name, SInt, ts...)
	}
	if f, ok := ex.DB.Funcs[name]; ok {
		var args []Val
		for i := range e.Args {
			args = append(args, arg(i))
		}
		return fr.callSpec(f, args, env)
	}
	panic(abortf("contract: unknown function %q", name))
}

func (fr *FnRun) callSpec(f *SpecFunc, args []Val, env *Env) Val {
	if len(args) != len(f.Params) {
		panic(abortf("spec func %s: %d arguments, want %d", f.Name, len(args), len(f.Params)))
	}
	if f.Body != nil {
		// macro expansion in the caller's state
		ne := &Env{st: env.st, old: env.old, fr: env.fr, pkg: env.pkg, vars: map[string]Val{}}
		for i, p := range f.Params {
			ne.vars[p] = args[i]
		}
		return fr.eval(f.Body, ne)
	}
	sig := fr.ex.UFs[f.Name]
	var ts []*Term
	for i, a := range args {
		t, ok := a.(*Term)
		if !ok {
			panic(abortf("spec func %s: argument %d is not a scalar (%T)", f.Name, i, a))
		}
		ts = append(ts, coerce(t, sig.Args[i]))
	}
	return App(f.Name, sig.Ret, ts...)
}

// assumeValid adds the declared validity invariant of a type for value v.
func (ex *Exec) assumeValid(st *State, v Val, t types.Type, depth int) {
	if depth > 3 || st == nil {
		return
	}
	key := typeKeyStar(t)
	if key == "" {
		return
	}
	specs := ex.DB.Valids[key]
	if len(specs) == 0 {
		return
	}
	fr := ex.curFn
	if fr == nil {
		fr = &FnRun{ex: ex}
	}
	for _, vs := range specs {
		pkg := key
		pkg = strings.TrimPrefix(pkg, "*")
		if i := strings.LastIndex(pkg, "."); i >= 0 {
			pkg = pkg[:i]
		}
		env := &Env{st: st, old: st, fr: fr, pkg: pkg, vars: map[string]Val{vs.Var: v}}
		st.assume(fr.evalBool(vs.E, env))
	}
}

func typeKeyStar(t types.Type) string {
	t = types.Unalias(t)
	if p, ok := t.(*types.Pointer); ok {
		k := TypeKey(p.Elem())
		if k == "" {
			return ""
		}
		return "*" + k
	}
	return TypeKey(t)
}

func findAppPattern(body *Term, name string, bound []*Term) *Term {
	var found *Term
	var walk func(t *Term)
	walk = func(t *Term) {
		if found != nil {
			return
		}
		if t.Op == "app" && t.Name == name {
			seen := map[string]bool{}
			var vars func(x *Term)
			vars = func(x *Term) {
				if x.Op == "var" {
					seen[x.Name] = true
				}
				for _, a := range x.Args {
					vars(a)
				}
			}
			vars(t)
			all := true
			for _, b := range bound {
				if !seen[b.Name] {
					all = false
				}
			}
			if all {
				found = t
				return
			}
		}
		if t.Op == "forall" || t.Op == "exists" {
			return
		}
		for _, a := range t.Args {
			walk(a)
		}
	}
	walk(body)
	return found
}
