package main

// Ownership scan (C12).  A props file may name `goroutine_roots`: functions (closures) that run
// concurrently with each other.  For every root the scan computes a conservative, purely
// syntactic over-approximation of the code it can run inside the struct's own package
// (static callees, every closure or function value created or mentioned on the way, and, for an
// interface call, every method of that name declared in the package), and from it the set of
// fields of the `shared_struct` it loads or stores and the captured variables of the enclosing
// function it loads or stores.  Because the struct's fields are unexported, no code outside the
// package can touch them, so the over-approximation is complete for them.
//
// Obligations (one per field / captured variable, syntactic, no solver involved):
//   norace:<T.f>      no root stores the field while another root loads or stores it,
//                     unless the field is declared `guarded` (lock discipline is then checked by
//                     the guard obligations) or its type is in the trusted concurrent-safe list
//   pointee:<T.f>     a pointer-like field loaded by two or more roots points to a value of a
//                     trusted concurrent-safe type (otherwise both roots could touch the pointee)
//   captured:<v>      the same rule for variables of the enclosing function captured by the roots
// A root named in the props file that does not exist fails `root-exists`.
//
// This is an inferred reads/writes frame, not a proof about schedules: it decides "which goroutine
// may touch which location", nothing about ordering.

import (
	"fmt"
	"go/types"
	"sort"
	"strings"

	"golang.org/x/tools/go/ssa"
)

type ownAccess struct {
	write bool
	where string // function in which the access happens
}

type ownResult struct {
	fields   map[string][]ownAccess // field name -> accesses
	captured map[string][]ownAccess // captured variable name -> accesses
}

// concurrency-safe types (trusted: documented as safe for concurrent use by their packages)
var ownSafeTypes = []string{
	"net.Conn", "sync.Mutex", "sync.RWMutex", "sync/atomic.", "go.uber.org/zap.Logger", "go.opentelemetry.io/otel/trace.Tracer",
	"go.opentelemetry.io/otel/metric.", "context.Context", "chan ",
}

func ownTypeSafe(t types.Type) bool {
	s := t.String()
	s = strings.TrimPrefix(s, "*")
	for _, p := range ownSafeTypes {
		if strings.HasPrefix(s, p) {
			return true
		}
	}
	return false
}

func ownPointerLike(t types.Type) bool {
	switch t.Underlying().(type) {
	case *types.Pointer, *types.Slice, *types.Map, *types.Interface, *types.Chan, *types.Signature:
		return true
	}
	return false
}

// ownReach: functions of package pkg that code started at root can run (conservative).
func ownReach(prog *Program, pkg *ssa.Package, root *ssa.Function, stop map[*ssa.Function]bool) map[*ssa.Function]bool {
	// methods of the package by name, for interface calls
	byName := map[string][]*ssa.Function{}
	for _, m := range pkg.Members {
		if t, ok := m.(*ssa.Type); ok {
			for _, tt := range []types.Type{t.Type(), types.NewPointer(t.Type())} {
				ms := prog.Prog.MethodSets.MethodSet(tt)
				for i := 0; i < ms.Len(); i++ {
					if f := prog.Prog.MethodValue(ms.At(i)); f != nil && f.Pkg == pkg {
						byName[f.Name()] = append(byName[f.Name()], f)
					}
				}
			}
		}
	}
	seen := map[*ssa.Function]bool{}
	var work []*ssa.Function
	add := func(f *ssa.Function) {
		if f == nil || seen[f] || stop[f] {
			return
		}
		// generic instantiations and wrappers keep Pkg nil: follow their origin's package
		p := f.Pkg
		if p == nil && f.Origin() != nil {
			p = f.Origin().Pkg
		}
		if p != pkg {
			return
		}
		seen[f] = true
		work = append(work, f)
	}
	add(root)
	for len(work) > 0 {
		f := work[len(work)-1]
		work = work[:len(work)-1]
		for _, b := range f.Blocks {
			for _, in := range b.Instrs {
				if c, ok := in.(ssa.CallInstruction); ok {
					cc := c.Common()
					if cc.IsInvoke() {
						for _, m := range byName[cc.Method.Name()] {
							add(m)
						}
					} else if sc := cc.StaticCallee(); sc != nil {
						add(sc)
					}
				}
				// every function value mentioned may be called
				for _, op := range in.Operands(nil) {
					if op == nil || *op == nil {
						continue
					}
					switch x := (*op).(type) {
					case *ssa.Function:
						add(x)
					case *ssa.MakeClosure:
						if fn, ok := x.Fn.(*ssa.Function); ok {
							add(fn)
						}
					}
				}
				if mc, ok := in.(*ssa.MakeClosure); ok {
					if fn, ok := mc.Fn.(*ssa.Function); ok {
						add(fn)
					}
				}
			}
		}
	}
	return seen
}

// ownScan collects the accesses made by the functions in reach to fields of the named struct and
// to the captured variables of `parent` (closures' free variables are mapped back to the parent's
// bindings by name).
func ownScan(reach map[*ssa.Function]bool, structKey string, parent *ssa.Function) ownResult {
	res := ownResult{fields: map[string][]ownAccess{}, captured: map[string][]ownAccess{}}
	var fns []*ssa.Function
	for f := range reach {
		fns = append(fns, f)
	}
	sort.Slice(fns, func(i, j int) bool { return FuncKey(fns[i]) < FuncKey(fns[j]) })
	for _, f := range fns {
		where := ShortKey(FuncKey(f))
		// which values are addresses of a field of the struct / of a captured variable
		fieldOf := func(v ssa.Value) (string, bool) {
			for {
				switch a := v.(type) {
				case *ssa.FieldAddr:
					if pt, ok := a.X.Type().Underlying().(*types.Pointer); ok && TypeKey(pt.Elem()) == structKey {
						return fieldName(a), true
					}
					v = a.X
				case *ssa.IndexAddr:
					v = a.X
				default:
					return "", false
				}
			}
		}
		capOf := func(v ssa.Value) (string, bool) {
			for {
				switch a := v.(type) {
				case *ssa.FreeVar:
					if f.Parent() == parent || (f.Parent() != nil && f.Parent().Parent() == parent) {
						return a.Name(), true
					}
					return "", false
				case *ssa.FieldAddr:
					v = a.X
				case *ssa.IndexAddr:
					v = a.X
				default:
					return "", false
				}
			}
		}
		for _, b := range f.Blocks {
			for _, in := range b.Instrs {
				switch x := in.(type) {
				case *ssa.Store:
					if n, ok := fieldOf(x.Addr); ok {
						res.fields[n] = append(res.fields[n], ownAccess{true, where})
					}
					if n, ok := capOf(x.Addr); ok {
						res.captured[n] = append(res.captured[n], ownAccess{true, where})
					}
				case *ssa.UnOp:
					if x.Op.String() == "*" {
						if n, ok := fieldOf(x.X); ok {
							res.fields[n] = append(res.fields[n], ownAccess{false, where})
						}
						if n, ok := capOf(x.X); ok {
							res.captured[n] = append(res.captured[n], ownAccess{false, where})
						}
					}
				case *ssa.Field:
					// field of a struct VALUE loaded earlier: the load of the whole struct is the access
				case ssa.CallInstruction:
					// the address of a field handed to a callee (e.g. c.mux.Lock(), atomic ops): the
					// callee may read and write it
					for _, a := range x.Common().Args {
						if n, ok := fieldOf(a); ok {
							res.fields[n] = append(res.fields[n], ownAccess{true, where + " (address passed to " + calleeName(x.Common()) + ")"})
						}
						if n, ok := capOf(a); ok {
							if _, isFV := a.(*ssa.FreeVar); isFV {
								res.captured[n] = append(res.captured[n], ownAccess{true, where + " (address passed to " + calleeName(x.Common()) + ")"})
							}
						}
					}
				}
			}
		}
	}
	return res
}

func calleeName(c *ssa.CallCommon) string {
	if c.IsInvoke() {
		return c.Method.Name()
	}
	if sc := c.StaticCallee(); sc != nil {
		return sc.Name()
	}
	return "function value"
}

// ownershipObligations builds the syntactic obligations for a props file.
func ownershipObligations(prog *Program, db *SpecDB, pf *PropFile) ([]*Obligation, []string) {
	var obls []*Obligation
	var notes []string
	mk := func(name, clause string, ok bool, detail string) {
		o := &Obligation{Name: name, Func: name, Kind: "ownership", Props: []string{pf.ID}, Clause: clause}
		if ok {
			o.Trivial, o.Goal = true, tTrue
		} else {
			o.Goal = tFalse
			o.Script = "(assert true)\n(check-sat)\n"
			o.Clause = clause + " -- " + detail
		}
		obls = append(obls, o)
	}
	type rootInfo struct {
		name    string
		fns     []*ssa.Function
		res     ownResult
		ordered map[string]bool
	}
	var roots []*rootInfo
	var parent *ssa.Function
	var pkg *ssa.Package
	all := map[*ssa.Function]bool{}
	for _, g := range pf.GoroutineRoots {
		ri := &rootInfo{name: g.Name, ordered: map[string]bool{}}
		for _, ow := range g.OrderedWith {
			ri.ordered[ow] = true
		}
		for _, k := range g.Functions {
			f := prog.Funcs[expandKey(k)]
			mk("root-exists:"+k, "the goroutine root "+k+" exists in the current tree", f != nil, "no such function")
			if f == nil {
				continue
			}
			ri.fns = append(ri.fns, f)
			all[f] = true
			if f.Parent() != nil && parent == nil {
				parent = f.Parent()
			}
			if pkg == nil {
				pkg = f.Pkg
			}
		}
		roots = append(roots, ri)
	}
	if pkg == nil {
		return obls, notes
	}
	structKey := pkg.Pkg.Path() + "." + pf.SharedStruct
	// closures of the enclosing function that are not roots themselves and are not merely deferred
	// by it (a deferred closure runs in the enclosing function's own goroutine when it returns)
	// may have been stored anywhere - e.g. into the query's callbacks - and are therefore counted
	// as callable from EVERY root
	var escaping []*ssa.Function
	if parent != nil {
		for _, an := range parent.AnonFuncs {
			if all[an] {
				continue
			}
			onlyDeferred := true
			found := false
			for _, b := range parent.Blocks {
				for _, in := range b.Instrs {
					if mc, ok := in.(*ssa.MakeClosure); ok && mc.Fn == an {
						found = true
						for _, r := range *mc.Referrers() {
							if _, isDbg := r.(*ssa.DebugRef); isDbg {
								continue
							}
							if _, isDefer := r.(*ssa.Defer); !isDefer {
								onlyDeferred = false
							}
						}
						continue
					}
					for _, op := range in.Operands(nil) {
						if op != nil && *op == ssa.Value(an) {
							found = true
							if _, isDefer := in.(*ssa.Defer); !isDefer {
								onlyDeferred = false
							}
						}
					}
				}
			}
			if !found || !onlyDeferred {
				escaping = append(escaping, an)
			}
		}
		var en []string
		for _, e := range escaping {
			en = append(en, ShortKey(FuncKey(e)))
		}
		notes = append(notes, "closures of "+ShortKey(FuncKey(parent))+" counted as callable from every root (they escape, e.g. into query callbacks): "+strings.Join(en, ", "))
	}
	for _, ri := range roots {
		reach := map[*ssa.Function]bool{}
		if len(ri.fns) > 0 && ri.fns[0].Parent() == parent {
			for _, e := range escaping {
				for fn := range ownReach(prog, pkg, e, all) {
					reach[fn] = true
				}
			}
		}
		for _, f := range ri.fns {
			// another root is never part of this root's reach (it runs in its own goroutine)
			stop := map[*ssa.Function]bool{}
			for o := range all {
				if o != f {
					same := false
					for _, g := range ri.fns {
						if g == o {
							same = true
						}
					}
					if !same {
						stop[o] = true
					}
				}
			}
			for fn := range ownReach(prog, pkg, f, stop) {
				reach[fn] = true
			}
		}
		ri.res = ownScan(reach, structKey, parent)
		var names []string
		for fn := range reach {
			names = append(names, ShortKey(FuncKey(fn)))
		}
		sort.Strings(names)
		notes = append(notes, fmt.Sprintf("goroutine root %s reaches %d functions of the package: %s", ri.name, len(names), strings.Join(names, ", ")))
	}
	// the struct's fields
	var stt *types.Struct
	for _, m := range pkg.Members {
		if t, ok := m.(*ssa.Type); ok && TypeKey(t.Type()) == structKey {
			stt, _ = t.Type().Underlying().(*types.Struct)
		}
	}
	mk("struct-exists:"+structKey, "the shared struct exists", stt != nil, "no such struct")
	if stt == nil {
		return obls, notes
	}
	check := func(kind, name string, typ types.Type, guarded bool, get func(*rootInfo) []ownAccess) {
		orderedPair := func(a, b *rootInfo) bool { return a.ordered[b.name] || b.ordered[a.name] }
		var users []string
		var active []*rootInfo
		for _, ri := range roots {
			if acc := get(ri); len(acc) > 0 {
				active = append(active, ri)
				users = append(users, ri.name+" (in "+acc[0].where+")")
			}
		}
		writes := func(ri *rootInfo) string {
			w := ""
			for _, a := range get(ri) {
				if a.write {
					w = a.where
				}
			}
			return w
		}
		// a conflict: two roots that are not ordered with each other, one of which stores
		var conflicts []string
		shared := false
		for i, a := range active {
			for _, b := range active[i+1:] {
				if orderedPair(a, b) {
					continue
				}
				shared = true
				if w := writes(a); w != "" {
					conflicts = append(conflicts, a.name+" stores (in "+w+") while "+b.name+" uses it")
				} else if w := writes(b); w != "" {
					conflicts = append(conflicts, b.name+" stores (in "+w+") while "+a.name+" uses it")
				}
			}
		}
		safe := typ != nil && ownTypeSafe(typ)
		// the location itself is safe to share only if it IS a synchronisation primitive (a mutex, an
		// atomic); a pointer to something safe is still a plain word that must not be stored concurrently
		ok := guarded || (safe && !ownPointerLike(typ)) || len(conflicts) == 0
		mk(kind+":"+name, "no goroutine root stores "+name+" while another root that is not ordered with it loads or stores it (unless guarded by a lock or itself a mutex/atomic)",
			ok, strings.Join(conflicts, "; "))
		if pt, isP := typ.(*types.Pointer); isP && TypeKey(pt.Elem()) == structKey {
			return // the shared struct itself: its fields are what the norace obligations are about
		}
		if typ != nil && ownPointerLike(typ) {
			ok2 := !shared || safe
			mk("pointee:"+name, "the value "+name+" refers to is reachable from at most one goroutine root (or only from roots ordered with each other), or is of a concurrency-safe type",
				ok2, "type "+typ.String()+" loaded by "+strings.Join(users, "; "))
		}
	}
	for i := 0; i < stt.NumFields(); i++ {
		f := stt.Field(i)
		_, guarded := db.Guarded[structKey+"."+f.Name()]
		fname := f.Name()
		check("norace", pf.SharedStruct+"."+fname, f.Type(), guarded, func(ri *rootInfo) []ownAccess { return ri.res.fields[fname] })
	}
	// captured variables of the parent
	capNames := map[string]types.Type{}
	for _, ri := range roots {
		for _, f := range ri.fns {
			for _, fv := range f.FreeVars {
				t := fv.Type()
				if pt, ok := t.(*types.Pointer); ok {
					t = pt.Elem()
				}
				capNames[fv.Name()] = t
			}
		}
		for n := range ri.res.captured {
			if _, ok := capNames[n]; !ok {
				capNames[n] = nil
			}
		}
	}
	var cn []string
	for n := range capNames {
		cn = append(cn, n)
	}
	sort.Strings(cn)
	for _, n := range cn {
		name := n
		check("captured", name, capNames[n], false, func(ri *rootInfo) []ownAccess { return ri.res.captured[name] })
	}
	return obls, notes
}
