package main

// Solver back ends: z3 4.8.12 (/usr/bin/z3), z3 5.1.0 (z3-new), cvc5 1.0.x.
// Each obligation is one SMT-LIB script; the first solver to answer
// sat/unsat wins the race.

import (
	"bytes"
	"fmt"
	"context"
	"crypto/sha256"
	"encoding/hex"
	"os"
	"os/exec"
	"path/filepath"
	"strconv"
	"strings"
	"sync"
	"time"
)

type SolveResult struct {
	Answer  string // unsat | sat | unknown | timeout | error
	Solver  string
	Seconds float64
	Model   string
	Raw     map[string]string // per solver first line
}

var solverNames = []string{"z3-new", "z3", "cvc5"}

func solverCmd(ctx context.Context, name, file string, timeoutS int, seed int) *exec.Cmd {
	switch name {
	case "z3", "z3-new":
		args := []string{"-T:" + strconv.Itoa(timeoutS), "smt.random_seed=" + strconv.Itoa(seed), "-smt2", file}
		return exec.CommandContext(ctx, name, args...)
	case "cvc5":
		return exec.CommandContext(ctx, "cvc5", "--tlimit="+strconv.Itoa(timeoutS*1000), "--seed="+strconv.Itoa(seed), file)
	}
	panic("unknown solver " + name)
}

func runOne(ctx context.Context, name, file string, timeoutS, seed int) (string, string, float64) {
	start := time.Now()
	cmd := solverCmd(ctx, name, file, timeoutS, seed)
	var out bytes.Buffer
	cmd.Stdout = &out
	cmd.Stderr = &out
	_ = cmd.Run()
	el := time.Since(start).Seconds()
	s := out.String()
	first := strings.TrimSpace(s)
	if i := strings.IndexByte(first, '\n'); i >= 0 {
		first = strings.TrimSpace(first[:i])
	}
	rest := ""
	if i := strings.IndexByte(s, '\n'); i >= 0 {
		rest = s[i+1:]
	}
	switch first {
	case "unsat", "sat", "unknown", "timeout":
	default:
		if ctx.Err() != nil {
			first = "cancelled"
		} else if strings.Contains(s, "timeout") || strings.Contains(s, "interrupted") {
			first = "timeout"
		} else {
			first = "error: " + truncate(first, 200)
		}
	}
	return first, rest, el
}

func truncate(s string, n int) string {
	if len(s) > n {
		return s[:n] + "…"
	}
	return s
}

type Solver struct {
	Dir       string
	TimeoutS  int
	Seed      int
	QuickS    int // first attempt with the primary solver only
	NoRace    bool // stage 1 only (used for vacuity covers, where unknown is acceptable)
	mu        *sync.Mutex
	ByBackend map[string]int
	SecBy     map[string]float64
}

func NewSolver(dir string, timeoutS, seed int) *Solver {
	os.MkdirAll(dir, 0o755)
	return &Solver{Dir: dir, TimeoutS: timeoutS, Seed: seed, QuickS: 2, ByBackend: map[string]int{}, SecBy: map[string]float64{}, mu: &sync.Mutex{}}
}

func hashScript(s string) string {
	h := sha256.Sum256([]byte(s))
	return hex.EncodeToString(h[:8])
}

// Solve decides one script.  wantModel: append (get-model).
func (sv *Solver) Solve(script string) SolveResult {
	h := hashScript(script)
	file := filepath.Join(sv.Dir, fmt.Sprintf("%s-%d.smt2", h, sv.Seed))
	full := script + "(get-model)\n"
	if err := os.WriteFile(file, []byte(full), 0o644); err != nil {
		return SolveResult{Answer: "error"}
	}
	if os.Getenv("GOVC_KEEP") == "" {
		defer os.Remove(file)
	}
	res := SolveResult{Raw: map[string]string{}}
	// stage 1: primary solver, short timeout
	ans, model, el := runOne(context.Background(), "z3-new", file, sv.QuickS, sv.Seed)
	res.Raw["z3-new"] = ans
	sv.note("z3-new", el, ans == "unsat" || ans == "sat")
	if ans == "unsat" || ans == "sat" {
		res.Answer, res.Solver, res.Seconds, res.Model = ans, "z3-new", el, model
		return res
	}
	if sv.NoRace {
		res.Answer = ans
		res.Seconds = el
		return res
	}
	// stage 2: race
	ctx, cancel := context.WithCancel(context.Background())
	defer cancel()
	type r struct {
		name, ans, model string
		el               float64
	}
	ch := make(chan r, len(solverNames))
	for _, n := range solverNames {
		go func(n string) {
			a, m, e := runOne(ctx, n, file, sv.TimeoutS, sv.Seed)
			ch <- r{n, a, m, e}
		}(n)
	}
	start := time.Now()
	final := "unknown"
	for i := 0; i < len(solverNames); i++ {
		x := <-ch
		if x.ans != "cancelled" {
			res.Raw[x.name] = x.ans
		}
		if x.ans == "unsat" || x.ans == "sat" {
			sv.note(x.name, x.el, true)
			res.Answer, res.Solver, res.Seconds, res.Model = x.ans, x.name, x.el, x.model
			cancel()
			return res
		}
		if x.ans == "timeout" {
			final = "timeout"
		}
	}
	res.Answer = final
	res.Seconds = time.Since(start).Seconds()
	return res
}

func (sv *Solver) note(name string, sec float64, won bool) {
	sv.mu.Lock()
	defer sv.mu.Unlock()
	sv.SecBy[name] += sec
	if won {
		sv.ByBackend[name]++
	}
}
