package main

import (
	"context"
	"encoding/json"
	"flag"
	"fmt"
	"os"
	"path/filepath"
	"sort"
	"strconv"
	"strings"
	"sync"
	"time"

	"go/types"

	"golang.org/x/tools/go/ssa"
)

type Variant struct {
	Tags      string   `json:"tags"`
	Functions []string `json:"functions"`
}

type PropFile struct {
	ID        string    `json:"id"`
	Packages  []string  `json:"packages"`
	Variants  []Variant `json:"variants"`
	MinObl    int       `json:"min_obligations"`
	Trusted   []string  `json:"trusted_base"`
	NotCovered []string `json:"not_covered"`
	Replay    string    `json:"replay"` // replay family: scalar, none
	Level     string    `json:"level"`
	// GuardCoverage: every function of the listed packages that touches a field declared
	// `guarded` must be in the function list (so that its accesses carry the guard obligation)
	GuardCoverage bool `json:"guard_coverage"`
	// every function of the loaded repository packages that takes a *proto.Reader and returns an
	// error must be in the function list (so that a decoder added later cannot escape the sweep)
	StickyCoverage bool `json:"sticky_coverage"`
	// ownership scan (own.go): functions that run concurrently with each other and the struct whose
	// fields they share
	GoroutineRoots []GoroutineRoot `json:"goroutine_roots"`
	SharedStruct   string          `json:"shared_struct"`
}

func expandKey(k string) string {
	if strings.HasPrefix(k, "ch.") {
		return repoModule + "." + strings.TrimPrefix(k, "ch.")
	}
	for _, p := range []string{"proto", "compress", "chpool"} {
		if strings.HasPrefix(k, p+".") {
			return repoModule + "/" + k
		}
	}
	return k
}

func main() {
	if len(os.Args) < 2 {
		fmt.Fprintln(os.Stderr, "usage: govc verify|list ...")
		os.Exit(2)
	}
	switch os.Args[1] {
	case "verify":
		os.Exit(cmdVerify(os.Args[2:]))
	case "funcs":
		os.Exit(cmdFuncs(os.Args[2:]))
	default:
		fmt.Fprintln(os.Stderr, "unknown command", os.Args[1])
		os.Exit(2)
	}
}

func cmdFuncs(args []string) int {
	fs := flag.NewFlagSet("funcs", flag.ExitOnError)
	repo := fs.String("repo", "/repo", "repository")
	tags := fs.String("tags", "verif", "build tags")
	pat := fs.String("match", "", "substring filter")
	sticky := fs.Bool("sticky", false, "only functions with a *proto.Reader parameter and an error result")
	fs.Parse(args)
	p, err := LoadProgram(*repo, *tags, []string{"./proto", "./compress", ".", "./chpool"})
	if err != nil {
		fmt.Fprintln(os.Stderr, err)
		return 2
	}
	var ks []string
	for k := range p.Funcs {
		if strings.HasPrefix(k, repoModule) && strings.Contains(k, *pat) {
			fn := p.Funcs[k]
			if *sticky {
				if _, _, ok := stickySig(fn.Signature, true); !ok || fn.Blocks == nil {
					continue
				}
			}
			if strings.Contains(k, "_test") || strings.HasSuffix(fn.Prog.Fset.Position(fn.Pos()).Filename, "_test.go") {
				continue
			}
			ks = append(ks, ShortKey(k))
		}
	}
	sort.Strings(ks)
	for _, k := range ks {
		fmt.Println(k)
	}
	return 0
}

type GoroutineRoot struct {
	Name      string   `json:"name"`
	Functions []string `json:"functions"`
	// OrderedWith: roots this one is synchronised with by construction (it starts them with `go` and
	// touches shared state only before they start or after it has waited for them): accesses of the
	// two are not counted as conflicting.  Trusted (happens-before is not analysed).
	OrderedWith []string `json:"ordered_with"`
}

type oblGroup struct {
	Name      string
	Instances []*Obligation
	Failed    []*Obligation
}

func cmdVerify(args []string) int {
	fs := flag.NewFlagSet("verify", flag.ExitOnError)
	repo := fs.String("repo", "/repo", "repository")
	verif := fs.String("verif", "/verif", "verification directory")
	prop := fs.String("prop", "", "property id")
	tier := fs.String("tier", "quick", "quick|thorough")
	only := fs.String("only", "", "verify only functions containing this substring")
	dump := fs.String("dump", "", "directory to dump SMT scripts of failed obligations")
	verbose := fs.Bool("v", false, "verbose")
	noEvidence := fs.Bool("no-evidence", false, "do not write the evidence file")
	fs.Parse(args)
	start := time.Now()
	seed := 0
	if s := os.Getenv("VERIF_SEED"); s != "" {
		seed, _ = strconv.Atoi(s)
	}
	pfPath := filepath.Join(*verif, "props", *prop+".json")
	data, err := os.ReadFile(pfPath)
	if err != nil {
		fmt.Println("UNDECIDED", err)
		return 2
	}
	var pf PropFile
	if err := json.Unmarshal(data, &pf); err != nil {
		fmt.Println("UNDECIDED", pfPath, err)
		return 2
	}
	db, err := LoadSpecs(filepath.Join(*verif, "spec"), *repo)
	if err != nil {
		fmt.Println("UNDECIDED contract files:", err)
		return 2
	}
	timeout := 10
	if *tier == "thorough" {
		timeout = 60
	}
	outDir := filepath.Join(*verif, "out")
	solver := NewSolver(filepath.Join(outDir, "smt", pf.ID), timeout, seed)
	var all []*Obligation
	var covers []*Cover
	var undecided []string
	assumptions := map[string]bool{}
	funcsDone := []string{}
	pk := pf.Packages
	if len(pk) == 0 {
		pk = []string{"./proto", "./compress", ".", "./chpool"}
	}
	var stickyFiles map[string]bool
	for _, v := range pf.Variants {
		prog, err := LoadProgram(*repo, v.Tags, pk)
		if err != nil {
			fmt.Println("UNDECIDED load:", err)
			return 2
		}
		ex, err := NewExec(prog, db)
		if err != nil {
			fmt.Println("UNDECIDED specs:", err)
			return 2
		}
		ex.Verbose = *verbose
		ex.CurProp = pf.ID
		replayProg, replayDB = prog, db
		for _, f := range v.Functions {
			key := expandKey(f)
			if *only != "" && !strings.Contains(key, *only) {
				continue
			}
			before := len(ex.Obls)
			if err := ex.VerifyFunction(key); err != nil {
				undecided = append(undecided, fmt.Sprintf("[%s] %v", v.Tags, err))
				ex.Obls = ex.Obls[:before]
				continue
			}
			funcsDone = append(funcsDone, f+" ["+v.Tags+"]")
			// vacuity guard per function: a listed function none of whose obligations counts for this
			// property (its contract's props() do not name it) would be "verified" without checking anything
			kept := 0
			for _, o := range ex.Obls[before:] {
				if propMatches(o.Props, pf.ID) {
					kept++
				}
			}
			if kept == 0 {
				undecided = append(undecided, fmt.Sprintf("[%s] %s is listed under %s but contributes no obligation to it (contract props() do not name the property?)", v.Tags, f, pf.ID))
			}
			for _, o := range ex.Obls[before:] {
				if len(pf.Variants) > 1 {
					o.Name += "@" + v.Tags
				}
			}
		}
		if pf.StickyCoverage {
			listed := map[string]bool{}
			for _, f := range v.Functions {
				listed[expandKey(f)] = true
			}
			var ks []string
			firstVariant := stickyFiles == nil
			if firstVariant {
				stickyFiles = map[string]bool{}
			}
			for k, fn := range prog.Funcs {
				if !strings.HasPrefix(k, repoModule) || fn.Blocks == nil {
					continue
				}
				file := fn.Prog.Fset.Position(fn.Pos()).Filename
				if firstVariant {
					stickyFiles[file] = true
				} else if stickyFiles[file] {
					continue // same source file as in the first variant: verified there
				}
				if _, _, ok := stickySig(fn.Signature, true); !ok {
					continue
				}
				if strings.Contains(k, "_test") || strings.HasSuffix(fn.Prog.Fset.Position(fn.Pos()).Filename, "_test.go") || strings.HasSuffix(fn.Prog.Fset.Position(fn.Pos()).Filename, "_verif.go") {
					continue
				}
				ks = append(ks, k)
			}
			sort.Strings(ks)
			for _, k := range ks {
				o := &Obligation{Name: "sweep-coverage:" + ShortKey(k), Func: k, Kind: "sweep-coverage", Props: []string{pf.ID},
					Clause: "every function that takes a *proto.Reader and returns an error is in the verified list"}
				if len(pf.Variants) > 1 {
					o.Name += "@" + v.Tags
				}
				if listed[k] {
					o.Trivial, o.Goal = true, tTrue
				} else {
					o.Goal = tFalse
					o.Script = "(assert true)\n(check-sat)\n"
				}
				ex.Obls = append(ex.Obls, o)
			}
		}
		if len(pf.GoroutineRoots) > 0 {
			oo, notes := ownershipObligations(prog, db, &pf)
			ex.Obls = append(ex.Obls, oo...)
			for _, n := range notes {
				assumptions["ownership scan: "+n] = true
			}
			assumptions["ownership scan is syntactic and conservative: reach = static callees + every function value mentioned + same-named package methods for interface calls; it decides which goroutine root may touch which field or captured variable, not any ordering; trusted concurrency-safe types: "+strings.Join(ownSafeTypes, ", ")] = true
		}
		if pf.GuardCoverage {
			// a `guarded` declaration must name an existing struct with both fields: a declaration
			// that matches nothing would otherwise pass vacuously
			for _, gk := range sortedKeys(db.Guarded) {
				o := &Obligation{Name: "guard-decl:" + gk, Func: gk, Kind: "guard-decl", Props: []string{pf.ID},
					Clause: "the guarded field " + gk + " and its lock " + db.Guarded[gk] + " exist in the current tree"}
				if guardDeclExists(prog, gk, db.Guarded[gk]) {
					o.Trivial, o.Goal = true, tTrue
				} else {
					o.Goal = tFalse
					o.Script = "(assert true)\n(check-sat)\n"
				}
				ex.Obls = append(ex.Obls, o)
			}
			for gk, excs := range db.GuardExc {
				for _, e := range excs {
					assumptions["accesses to guarded field "+gk+" made by "+e+" are exempt from the lock obligation (declared single-threaded in the contract file - runs after errgroup.Wait: argued, not checked)"] = true
				}
			}
			listed := map[string]bool{}
			for _, f := range v.Functions {
				listed[expandKey(f)] = true
			}
			for _, acc := range guardedAccessors(prog, db) {
				o := &Obligation{Name: "guard-coverage:" + ShortKey(acc), Func: acc, Kind: "guard-coverage", Props: []string{pf.ID},
					Clause: "every function that touches a guarded field is verified (so that its accesses carry the lock obligation)"}
				if listed[acc] {
					o.Trivial, o.Goal = true, tTrue
				} else {
					o.Goal = tFalse
					o.Script = "(assert true)\n(check-sat)\n"
				}
				ex.Obls = append(ex.Obls, o)
			}
		}
		for _, o := range ex.Obls {
			if propMatches(o.Props, pf.ID) {
				all = append(all, o)
			}
		}
		for a := range ex.Assumptions {
			assumptions[a] = true
		}
		covers = append(covers, ex.Covers...)
	}
	// solve (identical scripts are solved once)
	var wg sync.WaitGroup
	sem := make(chan struct{}, 8)
	first := map[string]*Obligation{}
	for _, o := range all {
		if o.Trivial {
			o.Res = SolveResult{Answer: "unsat", Solver: "simplifier"}
			continue
		}
		if _, ok := first[o.Script]; ok {
			continue
		}
		first[o.Script] = o
		wg.Add(1)
		sem <- struct{}{}
		go func(o *Obligation) {
			defer wg.Done()
			defer func() { <-sem }()
			o.Res = solver.Solve(o.Script)
		}(o)
	}
	wg.Wait()
	// second chance: obligations that timed out / came back unknown are retried with more
	// time, another seed and little concurrency (guards against load-induced flakiness)
	// (obligations listed as known findings get the first pass only: a finding that has become
	// provable is noticed there, one that still fails needs no second opinion)
	knownNames := loadKnown(filepath.Join(*verif, "KNOWN_FINDINGS.txt"), pf.ID)
	var retry []*Obligation
	for _, o := range first {
		if _, isKnown := knownNames[o.Name]; isKnown {
			continue
		}
		if o.Res.Answer != "unsat" && o.Res.Answer != "sat" {
			retry = append(retry, o)
		}
	}
	sort.Slice(retry, func(i, j int) bool { return retry[i].Name < retry[j].Name })
	maxRetry, attempts := 24, 3
	if *tier == "thorough" {
		maxRetry, attempts = 48, 3
	}
	if len(retry) > maxRetry {
		retry = retry[:maxRetry]
	}
	if os.Getenv("GOVC_NORETRY") != "" {
		retry = nil
	}
	if os.Getenv("GOVC_SLOW") != "" {
		for _, o := range retry {
			fmt.Printf("retrying: %s (%s)\n", o.Name, o.Res.Answer)
		}
	}
	if len(retry) > 0 {
		slow := NewSolver(filepath.Join(outDir, "smt", pf.ID+"-retry"), timeout*3, seed+1)
		slow.QuickS = timeout
		sem2 := make(chan struct{}, 3)
		for _, o := range retry {
			wg.Add(1)
			sem2 <- struct{}{}
			go func(o *Obligation) {
				defer wg.Done()
				defer func() { <-sem2 }()
				for attempt := 0; attempt < attempts; attempt++ {
					sv := *slow
					sv.Seed = seed + 1 + 7*attempt
					sv.ByBackend, sv.SecBy = map[string]int{}, map[string]float64{}
					r := sv.Solve(o.Script)
					for k, v := range sv.SecBy {
						slow.note(k, v, false)
					}
					if r.Answer == "unsat" || r.Answer == "sat" {
						o.Res = r
						break
					}
				}
			}(o)
		}
		wg.Wait()
		for k, v := range slow.SecBy {
			solver.SecBy[k] += v
		}
	}
	// thorough tier: a second opinion.  Every obligation discharged by one solver is given to a
	// different solver; agreement is counted, a contradicting `sat` makes the function undecided
	// (one of the two solvers is wrong: nothing is claimed).
	second := map[string]int{}
	var secondDisagree []string
	if *tier == "thorough" && os.Getenv("GOVC_NOSECOND") == "" {
		var smu sync.Mutex
		for _, o := range first {
			if o.Trivial || o.Res.Answer != "unsat" {
				continue
			}
			other := "cvc5"
			if o.Res.Solver == "cvc5" {
				other = "z3"
			}
			wg.Add(1)
			sem <- struct{}{}
			go func(o *Obligation, other string) {
				defer wg.Done()
				defer func() { <-sem }()
				file := filepath.Join(outDir, "smt", pf.ID, "second-"+hashScript(o.Script)+".smt2")
				os.MkdirAll(filepath.Dir(file), 0o755)
				if err := os.WriteFile(file, []byte(o.Script), 0o644); err != nil {
					return
				}
				defer os.Remove(file)
				ans, _, el := runOne(context.Background(), other, file, 20, seed)
				solver.note(other, el, false)
				smu.Lock()
				defer smu.Unlock()
				switch ans {
				case "unsat":
					second["agree"]++
				case "sat":
					second["disagree"]++
					secondDisagree = append(secondDisagree, o.Name+" ("+o.Res.Solver+": unsat, "+other+": sat)")
				default:
					second["no_answer_in_20s"]++
				}
			}(o, other)
		}
		wg.Wait()
	}
	// vacuity covers: per function/case, stop at the first satisfiable return path
	coverSolver := NewSolver(filepath.Join(outDir, "smt", pf.ID+"-cover"), 3, seed)
	coverSolver.QuickS = 3
	coverSolver.NoRace = true
	coverOK := map[string]string{}
	var cmu sync.Mutex
	byFn := map[string][]*Cover{}
	var fnOrder []string
	for _, c := range covers {
		k := c.Func + "/" + c.Case
		if _, ok := byFn[k]; !ok {
			fnOrder = append(fnOrder, k)
		}
		byFn[k] = append(byFn[k], c)
	}
	for _, k := range fnOrder {
		wg.Add(1)
		sem <- struct{}{}
		go func(k string) {
			defer wg.Done()
			defer func() { <-sem }()
			res := "unsat"
			for i, c := range byFn[k] {
				if i >= 6 {
					break
				}
				r := coverSolver.Solve(c.Script)
				if r.Answer != "unsat" {
					res = r.Answer
					break
				}
			}
			cmu.Lock()
			coverOK[k] = res
			cmu.Unlock()
		}(k)
	}
	wg.Wait()
	for _, o := range all {
		if !o.Trivial {
			o.Res = first[o.Script].Res
		}
	}
	for _, k := range fnOrder {
		if coverOK[k] == "unsat" {
			undecided = append(undecided, "vacuous: no return of "+ShortKey(k)+" is reachable under its preconditions")
		}
	}
	sort.Strings(secondDisagree)
	for _, d := range secondDisagree {
		undecided = append(undecided, "solvers disagree on "+d)
	}
	secondOpinion = second
	if os.Getenv("GOVC_STATS") != "" {
		cnt := map[string]int{}
		for _, o := range all {
			cnt[o.Func]++
		}
		type kv struct {
			k string
			v int
		}
		var kvs []kv
		for k, v := range cnt {
			kvs = append(kvs, kv{k, v})
		}
		sort.Slice(kvs, func(i, j int) bool { return kvs[i].v > kvs[j].v })
		for i, x := range kvs {
			if i < 15 {
				fmt.Printf("stats: %6d instances %s\n", x.v, ShortKey(x.k))
			}
		}
	}
	if os.Getenv("GOVC_SLOW") != "" {
		for _, o := range all {
			if o.Res.Seconds > 1 || o.Res.Answer != "unsat" {
				fmt.Printf("slow/failed: %-80s %s %s %.1fs %v\n", o.Name, o.Res.Answer, o.Res.Solver, o.Res.Seconds, o.Res.Raw)
			}
		}
	}
	// group
	groups := map[string]*oblGroup{}
	var order []string
	for _, o := range all {
		g := groups[o.Name]
		if g == nil {
			g = &oblGroup{Name: o.Name}
			groups[o.Name] = g
			order = append(order, o.Name)
		}
		g.Instances = append(g.Instances, o)
		if o.Res.Answer != "unsat" {
			g.Failed = append(g.Failed, o)
		}
	}
	known := loadKnown(filepath.Join(*verif, "KNOWN_FINDINGS.txt"), pf.ID)
	exit := 0
	violations := 0
	discharged := 0
	var knownHit []string
	replayDir := filepath.Join(outDir, "replays", pf.ID)
	os.RemoveAll(replayDir)
	for _, name := range order {
		g := groups[name]
		if len(g.Failed) == 0 {
			discharged++
			continue
		}
		if what, ok := known[name]; ok {
			fmt.Printf("KNOWN-FINDING: property=%s %s %s\n", pf.ID, name, what)
			knownHit = append(knownHit, name)
			continue
		}
		violations++
		exit = 1
		path := writeReplay(replayDir, pf, g, *repo, *verif, *dump)
		suffix := ""
		if !strings.HasSuffix(path, ".confirmed") {
			suffix = " no-failing-input-found"
		}
		fmt.Printf("VIOLATION property=%s replay=%s obligation=%s%s\n", pf.ID, strings.TrimSuffix(path, ".confirmed"), name, suffix)
	}
	for _, u := range undecided {
		fmt.Println("UNDECIDED", u)
		if exit == 0 {
			exit = 2
		}
	}
	if len(order) < pf.MinObl || len(order) == 0 {
		fmt.Printf("UNDECIDED only %d obligations generated, expected at least %d (vacuity guard)\n", len(order), pf.MinObl)
		if exit == 0 {
			exit = 2
		}
	}
	wall := time.Since(start).Seconds()
	fmt.Printf("govc: property %s tier %s: %d obligations (%d VC instances) over %d functions, %d discharged, %d known findings, %d violations, %d undecided functions, %.1fs\n",
		pf.ID, *tier, len(order), len(all), len(funcsDone), discharged, len(knownHit), violations, len(undecided), wall)
	if !*noEvidence {
		writeEvidence(filepath.Join(*verif, "evidence", pf.ID+".json"), pf, *tier, seed, order, groups, all, funcsDone, solver, assumptions, db, knownHit, violations, undecided, wall)
	}
	return exit
}

func propMatches(props []string, id string) bool {
	if len(props) == 0 || id == "DEV" {
		return true
	}
	for _, p := range props {
		if p == id {
			return true
		}
	}
	return false
}

// loadKnown reads "finding: property=Cxx obligation=<name> <text>" lines.
func loadKnown(path, id string) map[string]string {
	out := map[string]string{}
	data, err := os.ReadFile(path)
	if err != nil {
		return out
	}
	for _, ln := range strings.Split(string(data), "\n") {
		ln = strings.TrimSpace(ln)
		if !strings.HasPrefix(ln, "finding:") {
			continue
		}
		f := strings.Fields(ln)
		var prop, obl string
		rest := []string{}
		for _, w := range f[1:] {
			switch {
			case strings.HasPrefix(w, "property=") && prop == "":
				prop = strings.TrimPrefix(w, "property=")
			case strings.HasPrefix(w, "obligation=") && obl == "":
				obl = strings.TrimPrefix(w, "obligation=")
			default:
				rest = append(rest, w)
			}
		}
		if prop == id && obl != "" {
			out[obl] = strings.Join(rest, " ")
		}
	}
	return out
}

// secondOpinion: thorough-tier agreement counts of the second solver (written into the evidence).
var secondOpinion map[string]int

func writeEvidence(path string, pf PropFile, tier string, seed int, order []string, groups map[string]*oblGroup, all []*Obligation,
	funcs []string, solver *Solver, assumptions map[string]bool, db *SpecDB, known []string, violations int, undecided []string, wall float64) {
	os.MkdirAll(filepath.Dir(path), 0o755)
	discharged := 0
	for _, n := range order {
		if len(groups[n].Failed) == 0 {
			discharged++
		}
	}
	knownSet := map[string]bool{}
	for _, k := range known {
		knownSet[k] = true
	}
	claimed := len(order) - len(known)
	byBackend := map[string]int{}
	secBy := map[string]float64{}
	for _, o := range all {
		if o.Res.Answer == "unsat" {
			byBackend[o.Res.Solver]++
		}
	}
	for k, v := range solver.SecBy {
		secBy[k] = float64(int(v*100)) / 100
	}
	var samples []map[string]interface{}
	picked := 0
	for _, n := range order {
		g := groups[n]
		o := g.Instances[0]
		if o.Trivial && picked < 50 {
			continue
		}
		if len(samples) >= 4 {
			break
		}
		samples = append(samples, map[string]interface{}{
			"obligation": n, "clause": o.Clause, "answer": o.Res.Answer, "solver": o.Res.Solver, "seconds": o.Res.Seconds,
			"instances": len(g.Instances), "smt": truncate(o.Script, 6000),
		})
		picked++
	}
	if len(samples) == 0 && len(order) > 0 {
		o := groups[order[0]].Instances[0]
		samples = append(samples, map[string]interface{}{"obligation": order[0], "clause": o.Clause, "answer": o.Res.Answer, "solver": o.Res.Solver})
	}
	var as []string
	for a := range assumptions {
		as = append(as, a)
	}
	as = append(as,
		"int is 64 bits; machine integers are modelled as mathematical integers with explicit overflow obligations (signed + - * must not overflow unless the contract says wraps; unsigned arithmetic and conversions wrap exactly)",
		"distinct pointer/slice parameters do not alias at entry (separation at entry)",
		"go/ssa (x/tools v0.29.0) and go/types translate the source faithfully; the SMT solvers are sound",
	)
	for _, nc := range pf.NotCovered {
		as = append(as, "not covered: "+nc)
	}
	sort.Strings(as)
	var names []string
	names = append(names, order...)
	ev := map[string]interface{}{
		"property_id": pf.ID,
		"tier":        tier,
		"seed":        seed,
		"level":       "proof",
		"wall_s":      float64(int(wall*10)) / 10,
		"violations":  violations,
		"assumptions": as,
		"coverage": map[string]interface{}{
			"obligations":              claimed,
			"discharged":               discharged,
			"obligations_generated":    len(order),
			"known_findings_excluded":  len(known),
			"vc_instances":             len(all),
			"checker_cmd":              "govc verify -prop " + pf.ID + " -tier " + tier + " (weakest-precondition style VCs from go/ssa of /repo's working tree; z3 4.8.12, z3 5.1.0, cvc5 1.0 raced)",
			"trusted_base":             append([]string{"golang.org/x/tools go/ssa + go/types", "z3 4.8.12", "z3 5.1.0 (z3-new)", "cvc5 1.0", "govc symbolic executor and contract evaluator (/verif/govc)"}, pf.Trusted...),
			"functions_under_contract": funcs,
			"discharged_by_backend":    byBackend,
			"solver_seconds":           secBy,
			"second_solver_opinion":    secondOpinion,
			"known_findings_reported":  known,
			"undecided":                undecided,
			"obligation_names":         names,
			"samples":                  samples,
			"explanation":              "obligations = named obligations generated from the current tree minus those listed in KNOWN_FINDINGS.txt (reported as KNOWN-FINDING, never counted as discharged); every obligation is one SMT query generated from the SSA of the function under contract; a named obligation is discharged when all its path instances are unsat",
		},
	}
	b, _ := json.MarshalIndent(ev, "", " ")
	os.WriteFile(path, b, 0o644)
}

func sortedKeys(m map[string]string) []string {
	var out []string
	for k := range m {
		out = append(out, k)
	}
	sort.Strings(out)
	return out
}

// guardDeclExists: "pkgpath.Type.field" names a struct type of a loaded package that has both the
// field and the lock field.
func guardDeclExists(prog *Program, gk, lock string) bool {
	i := strings.LastIndex(gk, ".")
	tk, field := gk[:i], gk[i+1:]
	for _, sp := range prog.ByPkg {
		for _, m := range sp.Members {
			t, ok := m.(*ssa.Type)
			if !ok || TypeKey(t.Type()) != tk {
				continue
			}
			stt, ok := t.Type().Underlying().(*types.Struct)
			if !ok {
				return false
			}
			hasF, hasL := false, false
			for j := 0; j < stt.NumFields(); j++ {
				if stt.Field(j).Name() == field {
					hasF = true
				}
				if stt.Field(j).Name() == lock {
					hasL = true
				}
			}
			return hasF && hasL
		}
	}
	return false
}

// guardedAccessors lists the functions of the loaded repository packages that load or store a field
// declared `guarded`.
func guardedAccessors(prog *Program, db *SpecDB) []string {
	seen := map[string]bool{}
	var out []string
	var visit func(fn *ssa.Function)
	visit = func(fn *ssa.Function) {
		if fn == nil || fn.Blocks == nil {
			return
		}
		for _, b := range fn.Blocks {
			for _, in := range b.Instrs {
				if fa, ok := in.(*ssa.FieldAddr); ok {
					if al, ok := fa.X.(*ssa.Alloc); ok && !al.Heap {
						continue // a struct in the function's own frame
					}
					if pt, ok := fa.X.Type().Underlying().(*types.Pointer); ok {
						if _, g := db.Guarded[TypeKey(pt.Elem())+"."+fieldName(fa)]; g {
							k := FuncKey(fn)
							if guardExempt(db, TypeKey(pt.Elem())+"."+fieldName(fa), k) {
								continue
							}
							if !seen[k] {
								seen[k] = true
								out = append(out, k)
							}
						}
					}
				}
			}
		}
		for _, an := range fn.AnonFuncs {
			visit(an)
		}
	}
	for _, sp := range prog.ByPkg {
		for _, m := range sp.Members {
			switch x := m.(type) {
			case *ssa.Function:
				visit(x)
			case *ssa.Type:
				for _, t := range []types.Type{x.Type(), types.NewPointer(x.Type())} {
					ms := prog.Prog.MethodSets.MethodSet(t)
					for i := 0; i < ms.Len(); i++ {
						visit(prog.Prog.MethodValue(ms.At(i)))
					}
				}
			}
		}
	}
	sort.Strings(out)
	return out
}
