package main

// Contract files: comment-only Go files (or .spec files) whose `//@` lines
// carry contracts in a Gobra-flavoured syntax.  See DESIGN.md Appendix B.

import (
	"fmt"
	"math/big"
	"os"
	"strings"
	"unicode"
)

type Expr struct {
	Kind string // int str ident bin un call sel index slice old forall exists ite result nil bool
	Op   string
	Name string
	Int  *big.Int
	Str  string
	X, Y, Z *Expr
	Args []*Expr
	Vars []string
	Src  string
}

func (e *Expr) String() string {
	if e == nil {
		return "<nil>"
	}
	if e.Src != "" {
		return e.Src
	}
	return e.Kind + ":" + e.Name
}

type Clause struct {
	Internal bool
	Kind  string // requires ensures invariant decreases alloc
	E     *Expr
	Props []string
	Label string
	Src   string
	Assumed bool // ensures[abstract]: not verified against the body, listed as assumption
	File  string
	Line  int
}

type LoopSpec struct {
	Variant    string // "", "purego" or "default": build variant the loop exists in
	Ordinal    int
	Names      []string
	Invariants []*Clause
	Modifies   []*Expr
	Decreases  *Expr
	Unroll     int
}

type Contract struct {
	Key       string // canonical function key
	Pkg       string
	RecvName  string
	RecvType  string
	FuncName  string
	Params    []string
	Results   []string
	Props     []string
	Requires  []*Clause
	Ensures   []*Clause
	Lets      []*LetDef // `let name = expr`: post-state abbreviations usable in ensures clauses
	Sites     []*CallSiteSpec
	Unfold    []string // callees (key suffixes) whose bodies are executed at their call sites in this function
	Light     []string // callees (key suffixes) of which only the untagged postconditions are assumed at their call sites in this function
	Modifies  []*Expr
	ModAll    bool // modifies *
	HasMod    bool
	Loops     map[int]*LoopSpec
	VLoops    map[string]*LoopSpec // "<ordinal>|<variant>"
	Flags     map[string]string // inline, pure, wraps, maypanic, theory, trusted ...
	Assumed   bool
	Iface     bool
	File      string
	Line      int
	Splits    []SplitSpec
	Cases     []*CaseSpec
}

type CaseSpec struct {
	Name     string
	Requires []*Clause
	Ensures  []*Clause
}

type SplitSpec struct {
	Name   string
	Lo, Hi int64
}

type SpecFunc struct {
	Name   string
	Params []string
	PSorts []string // sort names: Int Bool Bytes(=Array Int Int) or type-ish
	Ret    string
	Body   *Expr
}

type Axiom struct {
	Name string
	E    *Expr
	Src  string
	When []string // include only in VCs that mention all of these function symbols
}

type GhostField struct {
	Type string // pkg-qualified type, e.g. proto.Reader / io.Reader
	Name string
	Sort string
}

type ValidSpec struct {
	Type string
	Var  string
	E    *Expr
}

type SpecFile struct {
	Path      string
	Pkg       string            // package path this file talks about by default
	Imports   map[string]string // alias -> path
	Contracts []*Contract
	Funcs     []*SpecFunc
	Axioms    []*Axiom
	Ghosts    []*GhostField
	Valids    []*ValidSpec
	Opaques   []string
	Guarded   []GuardSpec
	NoEffect  []string
	Delegates map[string]string
	Globals   []*GlobalInv
}

// GlobalInv: an assumed invariant of package-level variables (assumed at entry of every
// function of the package; the variables it mentions must not be assigned outside init).
type GlobalInv struct {
	Pkg  string
	Name string
	E    *Expr
	Src  string
}

// ---------------------------------------------------------------------------
// lexer

type tok struct {
	k string // id int str op eof
	s string
}

func lex(src string) ([]tok, error) {
	var out []tok
	i := 0
	for i < len(src) {
		c := rune(src[i])
		switch {
		case unicode.IsSpace(c):
			i++
		case unicode.IsLetter(c) || c == '_':
			j := i
			for j < len(src) && (unicode.IsLetter(rune(src[j])) || unicode.IsDigit(rune(src[j])) || src[j] == '_') {
				j++
			}
			out = append(out, tok{"id", src[i:j]})
			i = j
		case unicode.IsDigit(c):
			j := i
			for j < len(src) && (unicode.IsDigit(rune(src[j])) || src[j] == 'x' || src[j] == '_' || (src[j] >= 'a' && src[j] <= 'f') || (src[j] >= 'A' && src[j] <= 'F')) {
				j++
			}
			out = append(out, tok{"int", src[i:j]})
			i = j
		case c == '"':
			j := i + 1
			for j < len(src) && src[j] != '"' {
				j++
			}
			if j >= len(src) {
				return nil, fmt.Errorf("unterminated string")
			}
			out = append(out, tok{"str", src[i+1 : j]})
			i = j + 1
		default:
			ops := []string{"<==>", "==>", "::", "..", "==", "!=", "<=", ">=", "&&", "||", "<", ">", "+", "-", "*", "/", "%", "!", "(", ")", "[", "]", ",", ".", ":", "{", "}", "$", "?"}
			found := false
			for _, op := range ops {
				if strings.HasPrefix(src[i:], op) {
					out = append(out, tok{"op", op})
					i += len(op)
					found = true
					break
				}
			}
			if !found {
				return nil, fmt.Errorf("unexpected character %q", c)
			}
		}
	}
	out = append(out, tok{"eof", ""})
	return out, nil
}

type parser struct {
	t   []tok
	p   int
	src string
}

func (p *parser) peek() tok { return p.t[p.p] }
func (p *parser) next() tok { t := p.t[p.p]; p.p++; return t }
func (p *parser) isOp(s string) bool {
	return p.t[p.p].k == "op" && p.t[p.p].s == s
}
func (p *parser) isID(s string) bool {
	return p.t[p.p].k == "id" && p.t[p.p].s == s
}
func (p *parser) expectOp(s string) error {
	if !p.isOp(s) {
		return fmt.Errorf("expected %q, got %q in %q", s, p.peek().s, p.src)
	}
	p.p++
	return nil
}

func ParseExpr(src string) (*Expr, error) {
	toks, err := lex(src)
	if err != nil {
		return nil, fmt.Errorf("%v in %q", err, src)
	}
	p := &parser{t: toks, src: src}
	e, err := p.expr()
	if err != nil {
		return nil, err
	}
	if p.peek().k != "eof" {
		return nil, fmt.Errorf("trailing tokens at %q in %q", p.peek().s, src)
	}
	e.Src = strings.TrimSpace(src)
	return e, nil
}

func (p *parser) expr() (*Expr, error) {
	if p.isID("forall") || p.isID("exists") {
		kind := p.next().s
		var vars []string
		for {
			t := p.next()
			if t.k != "id" {
				return nil, fmt.Errorf("quantifier variable expected in %q", p.src)
			}
			name := t.s
			if p.isOp(":") {
				p.p++
				st := p.next()
				if st.k != "id" {
					return nil, fmt.Errorf("sort name expected after ':' in %q", p.src)
				}
				name += ":" + st.s
			}
			vars = append(vars, name)
			if p.isOp(",") {
				p.p++
				continue
			}
			break
		}
		var lo, hi *Expr
		if p.isID("in") {
			p.p++
			var err error
			lo, err = p.add()
			if err != nil {
				return nil, err
			}
			if err := p.expectOp(".."); err != nil {
				return nil, err
			}
			hi, err = p.add()
			if err != nil {
				return nil, err
			}
		}
		if err := p.expectOp("::"); err != nil {
			return nil, err
		}
		body, err := p.expr()
		if err != nil {
			return nil, err
		}
		return &Expr{Kind: kind, Vars: vars, X: lo, Y: hi, Z: body}, nil
	}
	return p.iff()
}

func (p *parser) iff() (*Expr, error) {
	l, err := p.implies()
	if err != nil {
		return nil, err
	}
	for p.isOp("<==>") {
		p.p++
		r, err := p.implies()
		if err != nil {
			return nil, err
		}
		l = &Expr{Kind: "bin", Op: "<==>", X: l, Y: r}
	}
	return l, nil
}

func (p *parser) implies() (*Expr, error) {
	l, err := p.or()
	if err != nil {
		return nil, err
	}
	if p.isOp("==>") {
		p.p++
		var r *Expr
		if p.isID("forall") || p.isID("exists") {
			r, err = p.expr()
		} else {
			r, err = p.implies()
		}
		if err != nil {
			return nil, err
		}
		return &Expr{Kind: "bin", Op: "==>", X: l, Y: r}, nil
	}
	return l, nil
}

func (p *parser) or() (*Expr, error) {
	l, err := p.and()
	if err != nil {
		return nil, err
	}
	for p.isOp("||") {
		p.p++
		r, err := p.and()
		if err != nil {
			return nil, err
		}
		l = &Expr{Kind: "bin", Op: "||", X: l, Y: r}
	}
	return l, nil
}

func (p *parser) and() (*Expr, error) {
	l, err := p.cmp()
	if err != nil {
		return nil, err
	}
	for p.isOp("&&") {
		p.p++
		var r *Expr
		if p.isID("forall") || p.isID("exists") {
			r, err = p.expr()
		} else {
			r, err = p.cmp()
		}
		if err != nil {
			return nil, err
		}
		l = &Expr{Kind: "bin", Op: "&&", X: l, Y: r}
	}
	return l, nil
}

func (p *parser) cmp() (*Expr, error) {
	l, err := p.add()
	if err != nil {
		return nil, err
	}
	for _, op := range []string{"==", "!=", "<=", ">=", "<", ">"} {
		if p.isOp(op) {
			p.p++
			r, err := p.add()
			if err != nil {
				return nil, err
			}
			e := &Expr{Kind: "bin", Op: op, X: l, Y: r}
			// chained comparison a <= b <= c
			for _, op2 := range []string{"<=", "<"} {
				if p.isOp(op2) && (op == "<=" || op == "<") {
					p.p++
					r2, err := p.add()
					if err != nil {
						return nil, err
					}
					e = &Expr{Kind: "bin", Op: "&&", X: e, Y: &Expr{Kind: "bin", Op: op2, X: r, Y: r2}}
				}
			}
			return e, nil
		}
	}
	return l, nil
}

func (p *parser) add() (*Expr, error) {
	l, err := p.mul()
	if err != nil {
		return nil, err
	}
	for p.isOp("+") || p.isOp("-") {
		op := p.next().s
		r, err := p.mul()
		if err != nil {
			return nil, err
		}
		l = &Expr{Kind: "bin", Op: op, X: l, Y: r}
	}
	return l, nil
}

func (p *parser) mul() (*Expr, error) {
	l, err := p.unary()
	if err != nil {
		return nil, err
	}
	for p.isOp("*") || p.isOp("/") || p.isOp("%") {
		op := p.next().s
		r, err := p.unary()
		if err != nil {
			return nil, err
		}
		l = &Expr{Kind: "bin", Op: op, X: l, Y: r}
	}
	return l, nil
}

func (p *parser) unary() (*Expr, error) {
	if p.isOp("!") || p.isOp("-") {
		op := p.next().s
		x, err := p.unary()
		if err != nil {
			return nil, err
		}
		return &Expr{Kind: "un", Op: op, X: x}, nil
	}
	if p.isOp("*") { // explicit dereference
		p.p++
		x, err := p.unary()
		if err != nil {
			return nil, err
		}
		return &Expr{Kind: "un", Op: "*", X: x}, nil
	}
	return p.postfix()
}

func (p *parser) postfix() (*Expr, error) {
	x, err := p.primary()
	if err != nil {
		return nil, err
	}
	for {
		switch {
		case p.isOp("."):
			p.p++
			t := p.next()
			if t.k != "id" {
				return nil, fmt.Errorf("field name expected after '.' in %q", p.src)
			}
			x = &Expr{Kind: "sel", X: x, Name: t.s}
		case p.isOp("["):
			p.p++
			var lo *Expr
			if !p.isOp("..") {
				lo, err = p.expr()
				if err != nil {
					return nil, err
				}
			}
			if p.isOp("..") {
				p.p++
				var hi *Expr
				if !p.isOp("]") {
					hi, err = p.expr()
					if err != nil {
						return nil, err
					}
				}
				if err := p.expectOp("]"); err != nil {
					return nil, err
				}
				x = &Expr{Kind: "slice", X: x, Y: lo, Z: hi}
			} else {
				if err := p.expectOp("]"); err != nil {
					return nil, err
				}
				x = &Expr{Kind: "index", X: x, Y: lo}
			}
		case p.isOp("("):
			p.p++
			var args []*Expr
			for !p.isOp(")") {
				a, err := p.expr()
				if err != nil {
					return nil, err
				}
				args = append(args, a)
				if p.isOp(",") {
					p.p++
				}
			}
			p.p++
			x = &Expr{Kind: "call", X: x, Args: args}
		default:
			return x, nil
		}
	}
}

func (p *parser) primary() (*Expr, error) {
	t := p.next()
	switch t.k {
	case "int":
		s := strings.ReplaceAll(t.s, "_", "")
		v, ok := new(big.Int).SetString(s, 0)
		if !ok {
			return nil, fmt.Errorf("bad integer %q", t.s)
		}
		return &Expr{Kind: "int", Int: v}, nil
	case "str":
		return &Expr{Kind: "str", Str: t.s}, nil
	case "id":
		switch t.s {
		case "true":
			return &Expr{Kind: "bool", Name: "true"}, nil
		case "false":
			return &Expr{Kind: "bool", Name: "false"}, nil
		case "nil":
			return &Expr{Kind: "nil"}, nil
		case "old":
			if err := p.expectOp("("); err != nil {
				return nil, err
			}
			x, err := p.expr()
			if err != nil {
				return nil, err
			}
			if err := p.expectOp(")"); err != nil {
				return nil, err
			}
			return &Expr{Kind: "old", X: x}, nil
		}
		return &Expr{Kind: "ident", Name: t.s}, nil
	case "op":
		if t.s == "(" {
			x, err := p.expr()
			if err != nil {
				return nil, err
			}
			if err := p.expectOp(")"); err != nil {
				return nil, err
			}
			return x, nil
		}
	}
	return nil, fmt.Errorf("unexpected token %q in %q", t.s, p.src)
}

// ---------------------------------------------------------------------------
// file structure

var clauseKeywords = map[string]bool{
	"contract": true, "guarded": true, "let": true, "callsite": true, "nocall": true, "assert": true, "unfold": true, "light": true, "assume": true, "requires": true, "ensures": true, "modifies": true,
	"invariant": true, "decreases": true, "loop": true, "spec": true, "axiom": true, "ghost": true,
	"valid": true, "inline": true, "pure": true, "wraps": true, "maypanic": true, "theory": true,
	"package": true, "import": true, "opaque": true, "split": true, "noeffect": true, "trusted": true,
	"case": true, "alloc": true, "unroll": true, "interface": true, "nooverflow": true, "havocs": true,
	"reads": true, "bounded": true, "skip": true, "delegate": true, "global": true,
}

type rawLine struct {
	text string
	line int
}

// ParseSpecFile reads a contracts file.  defaultPkg is the import path the
// unqualified function names belong to.
func ParseSpecFile(path, defaultPkg string) (*SpecFile, error) {
	data, err := os.ReadFile(path)
	if err != nil {
		return nil, err
	}
	sf := &SpecFile{Path: path, Pkg: defaultPkg, Imports: map[string]string{}}
	var items []rawLine
	for n, ln := range strings.Split(string(data), "\n") {
		s := strings.TrimSpace(ln)
		if !strings.HasPrefix(s, "//@") {
			continue
		}
		body := strings.TrimSpace(s[3:])
		if body == "" || strings.HasPrefix(body, "--") {
			continue
		}
		if i := strings.Index(body, " -- "); i >= 0 {
			body = strings.TrimSpace(body[:i])
		}
		first := body
		if i := strings.IndexAny(body, " \t(["); i >= 0 {
			first = body[:i]
		}
		if clauseKeywords[first] || len(items) == 0 {
			items = append(items, rawLine{body, n + 1})
		} else {
			items[len(items)-1].text += " " + body
		}
	}
	var cur *Contract
	var curLoop *LoopSpec
	var curCase *CaseSpec
	var curSite *CallSiteSpec
	for _, it := range items {
		kw, rest := splitKW(it.text)
		fail := func(err error) error {
			return fmt.Errorf("%s:%d: %v", path, it.line, err)
		}
		switch kw {
		case "package":
			sf.Pkg = rest
		case "import":
			f := strings.Fields(rest)
			if len(f) != 2 {
				return nil, fail(fmt.Errorf("import alias path"))
			}
			sf.Imports[f[0]] = f[1]
		case "global":
			i := strings.Index(rest, ":")
			if i < 0 {
				return nil, fail(fmt.Errorf("global name: expr"))
			}
			e, err := ParseExpr(rest[i+1:])
			if err != nil {
				return nil, fail(err)
			}
			sf.Globals = append(sf.Globals, &GlobalInv{Pkg: sf.Pkg, Name: strings.TrimSpace(rest[:i]), E: e, Src: strings.TrimSpace(rest[i+1:])})
		case "delegate":
			// delegate (Type) field
			j := strings.Index(rest, ")")
			if !strings.HasPrefix(rest, "(") || j < 0 {
				return nil, fail(fmt.Errorf("delegate (Type) field"))
			}
			if sf.Delegates == nil {
				sf.Delegates = map[string]string{}
			}
			sf.Delegates[qualifyType(strings.TrimSpace(rest[1:j]), sf)] = strings.TrimSpace(rest[j+1:])
		case "opaque":
			sf.Opaques = append(sf.Opaques, strings.Fields(rest)...)
		case "guarded":
			// guarded (Type) field by lock
			// guarded (Type) f1,f2 by lock except Func1,Func2   (the functions after `except` are
			// exempt: their accesses are argued single-threaded and listed as an assumption)
			fs := strings.Fields(rest)
			if !(len(fs) == 4 || (len(fs) == 6 && fs[4] == "except")) || fs[2] != "by" || !strings.HasPrefix(fs[0], "(") {
				return nil, fail(fmt.Errorf("guarded (Type) field[,field] by lockfield [except Func[,Func]]"))
			}
			var exc []string
			if len(fs) == 6 {
				exc = strings.Split(fs[5], ",")
			}
			for _, f := range strings.Split(fs[1], ",") {
				sf.Guarded = append(sf.Guarded, GuardSpec{Type: qualifyType(strings.Trim(fs[0], "()"), sf), Field: f, Lock: fs[3], Except: exc})
			}
		case "noeffect":
			sf.NoEffect = append(sf.NoEffect, strings.Fields(rest)...)
		case "contract", "assume", "interface":
			assumed := false
			if kw == "assume" {
				assumed = true
				k2, r2 := splitKW(rest)
				if k2 != "contract" {
					return nil, fail(fmt.Errorf("assume must be followed by contract"))
				}
				rest = r2
			}
			c, err := parseHeader(rest, sf)
			if err != nil {
				return nil, fail(err)
			}
			if kw == "interface" && !strings.Contains(c.Key, "/") && strings.Count(c.Key, ".") == 1 && sf.Pkg != "" {
				// unqualified interface name: it belongs to the file's package
				if _, isImport := sf.Imports[strings.SplitN(c.Key, ".", 2)[0]]; !isImport {
					c.Key = sf.Pkg + "." + c.Key
					c.Pkg = sf.Pkg
				}
			}
			c.Assumed = assumed
			c.Iface = kw == "interface"
			c.File, c.Line = path, it.line
			sf.Contracts = append(sf.Contracts, c)
			cur, curLoop, curCase, curSite = c, nil, nil, nil
		case "light":
			// light <callee>...: at calls of these callees assume only the clauses that carry no [Cxx]
			// tag (assuming less is sound; it keeps a heavy byte-level contract out of a caller that
			// only needs the callee's stream effects)
			if cur == nil {
				return nil, fail(fmt.Errorf("light outside contract"))
			}
			cur.Light = append(cur.Light, strings.Fields(rest)...)
		case "unfold":
			if cur == nil {
				return nil, fail(fmt.Errorf("unfold outside contract"))
			}
			cur.Unfold = append(cur.Unfold, strings.Fields(rest)...)
		case "callsite":
			if cur == nil {
				return nil, fail(fmt.Errorf("callsite outside contract"))
			}
			curSite = &CallSiteSpec{Pattern: strings.TrimSpace(rest)}
			cur.Sites = append(cur.Sites, curSite)
		case "nocall":
			// nocall <pattern>: the function must not contain a call matching the pattern
			if cur == nil {
				return nil, fail(fmt.Errorf("nocall outside contract"))
			}
			cur.Sites = append(cur.Sites, &CallSiteSpec{Pattern: strings.TrimSpace(rest), Forbidden: true})
			curSite = nil
		case "assert":
			if cur == nil || curSite == nil {
				return nil, fail(fmt.Errorf("assert outside callsite"))
			}
			cl, err := parseClause("assert", rest)
			if err != nil {
				return nil, fail(err)
			}
			cl.File, cl.Line = path, it.line
			curSite.Asserts = append(curSite.Asserts, cl)
		case "let":
			if cur == nil {
				return nil, fail(fmt.Errorf("let outside contract"))
			}
			eq := strings.Index(rest, "=")
			if eq < 0 {
				return nil, fail(fmt.Errorf("let: expected name = expr"))
			}
			le, err := ParseExpr(strings.TrimSpace(rest[eq+1:]))
			if err != nil {
				return nil, fail(err)
			}
			cur.Lets = append(cur.Lets, &LetDef{Name: strings.TrimSpace(rest[:eq]), E: le, Src: rest})
		case "requires", "ensures", "invariant":
			if cur == nil {
				return nil, fail(fmt.Errorf("%s outside contract", kw))
			}
			cl, err := parseClause(kw, rest)
			if err != nil {
				return nil, fail(err)
			}
			cl.File, cl.Line = path, it.line
			switch kw {
			case "requires":
				if curCase != nil {
					curCase.Requires = append(curCase.Requires, cl)
				} else {
					cur.Requires = append(cur.Requires, cl)
				}
			case "ensures":
				if curCase != nil {
					curCase.Ensures = append(curCase.Ensures, cl)
				} else {
					cur.Ensures = append(cur.Ensures, cl)
				}
			case "invariant":
				if curLoop == nil {
					return nil, fail(fmt.Errorf("invariant outside loop"))
				}
				curLoop.Invariants = append(curLoop.Invariants, cl)
			}
		case "case":
			if cur == nil {
				return nil, fail(fmt.Errorf("case outside contract"))
			}
			curCase = &CaseSpec{Name: strings.TrimSuffix(strings.TrimSpace(rest), ":")}
			cur.Cases = append(cur.Cases, curCase)
		case "modifies":
			if cur == nil {
				return nil, fail(fmt.Errorf("modifies outside contract"))
			}
			var list []*Expr
			all := false
			for _, part := range splitTop(rest, ',') {
				part = strings.TrimSpace(part)
				if part == "" {
					continue
				}
				if part == "*" {
					all = true
					continue
				}
				if part == "nothing" {
					continue
				}
				e, err := ParseExpr(part)
				if err != nil {
					return nil, fail(err)
				}
				list = append(list, e)
			}
			if curLoop != nil {
				curLoop.Modifies = append(curLoop.Modifies, list...)
			} else {
				cur.Modifies = append(cur.Modifies, list...)
				cur.HasMod = true
				if all {
					cur.ModAll = true
				}
			}
		case "decreases":
			e, err := ParseExpr(rest)
			if err != nil {
				return nil, fail(err)
			}
			if curLoop != nil {
				curLoop.Decreases = e
			}
		case "loop":
			if cur == nil {
				return nil, fail(fmt.Errorf("loop outside contract"))
			}
			variant := ""
			if i := strings.Index(rest, "["); i >= 0 {
				j := strings.Index(rest, "]")
				variant = strings.TrimSpace(rest[i+1 : j])
				rest = rest[:i] + rest[j+1:]
			}
			f := strings.Fields(strings.NewReplacer("(", " ", ")", " ", ",", " ").Replace(rest))
			if len(f) == 0 {
				return nil, fail(fmt.Errorf("loop ordinal expected"))
			}
			var ord int
			fmt.Sscanf(f[0], "%d", &ord)
			curLoop = &LoopSpec{Ordinal: ord, Names: f[1:], Variant: variant}
			curCase = nil
			if variant != "" {
				if cur.VLoops == nil {
					cur.VLoops = map[string]*LoopSpec{}
				}
				cur.VLoops[fmt.Sprintf("%d|%s", ord, variant)] = curLoop
			} else {
				if cur.Loops == nil {
					cur.Loops = map[int]*LoopSpec{}
				}
				cur.Loops[ord] = curLoop
			}
		case "unroll":
			if curLoop == nil {
				return nil, fail(fmt.Errorf("unroll outside loop"))
			}
			fmt.Sscanf(rest, "%d", &curLoop.Unroll)
		case "inline", "pure", "wraps", "maypanic", "theory", "trusted", "nooverflow", "havocs", "bounded", "skip", "alloc":
			if cur == nil {
				return nil, fail(fmt.Errorf("%s outside contract", kw))
			}
			if cur.Flags == nil {
				cur.Flags = map[string]string{}
			}
			if rest == "" {
				rest = "true"
			}
			cur.Flags[kw] = rest
		case "split":
			// split p in lo..hi
			var name string
			var lo, hi int64
			r := strings.NewReplacer("..", " ", " in ", " ").Replace(rest)
			if _, err := fmt.Sscanf(r, "%s %d %d", &name, &lo, &hi); err != nil {
				return nil, fail(fmt.Errorf("split name in lo..hi: %v", err))
			}
			cur.Splits = append(cur.Splits, SplitSpec{name, lo, hi})
		case "spec":
			f, err := parseSpecFunc(rest)
			if err != nil {
				return nil, fail(err)
			}
			sf.Funcs = append(sf.Funcs, f)
		case "axiom":
			i := strings.Index(rest, ":")
			if i < 0 {
				return nil, fail(fmt.Errorf("axiom name: expr"))
			}
			e, err := ParseExpr(rest[i+1:])
			if err != nil {
				return nil, fail(err)
			}
			ax := &Axiom{Name: strings.TrimSpace(rest[:i]), E: e, Src: strings.TrimSpace(rest[i+1:])}
			if f := strings.Fields(ax.Name); len(f) >= 3 && f[1] == "when" {
				ax.Name = f[0]
				ax.When = f[2:]
			}
			sf.Axioms = append(sf.Axioms, ax)
		case "ghost":
			// ghost field (Type) name Sort
			r := strings.TrimSpace(strings.TrimPrefix(rest, "field"))
			if !strings.HasPrefix(r, "(") {
				return nil, fail(fmt.Errorf("ghost field (Type) name Sort"))
			}
			j := strings.Index(r, ")")
			typ := strings.TrimSpace(r[1:j])
			f := strings.Fields(r[j+1:])
			if len(f) != 2 {
				return nil, fail(fmt.Errorf("ghost field (Type) name Sort"))
			}
			sf.Ghosts = append(sf.Ghosts, &GhostField{Type: qualifyType(typ, sf), Name: f[0], Sort: f[1]})
		case "valid":
			// valid (x Type): expr
			if !strings.HasPrefix(rest, "(") {
				return nil, fail(fmt.Errorf("valid (x Type): expr"))
			}
			j := strings.Index(rest, ")")
			f := strings.Fields(rest[1:j])
			if len(f) != 2 {
				return nil, fail(fmt.Errorf("valid (x Type): expr"))
			}
			r := strings.TrimSpace(rest[j+1:])
			r = strings.TrimPrefix(r, ":")
			e, err := ParseExpr(r)
			if err != nil {
				return nil, fail(err)
			}
			sf.Valids = append(sf.Valids, &ValidSpec{Type: qualifyType(f[1], sf), Var: f[0], E: e})
		default:
			return nil, fail(fmt.Errorf("unknown item %q", kw))
		}
	}
	return sf, nil
}

func splitKW(s string) (string, string) {
	s = strings.TrimSpace(s)
	i := strings.IndexAny(s, " \t")
	if i < 0 {
		return s, ""
	}
	return s[:i], strings.TrimSpace(s[i+1:])
}

func splitTop(s string, sep byte) []string {
	var out []string
	depth := 0
	start := 0
	for i := 0; i < len(s); i++ {
		switch s[i] {
		case '(', '[':
			depth++
		case ')', ']':
			depth--
		default:
			if s[i] == sep && depth == 0 {
				out = append(out, s[start:i])
				start = i + 1
			}
		}
	}
	out = append(out, s[start:])
	return out
}

// parseClause handles trailing "[C01,C02]" property tags and "{label}".
func parseClause(kind, rest string) (*Clause, error) {
	cl := &Clause{Kind: kind, Src: rest}
	rest = strings.TrimSpace(rest)
	if strings.HasPrefix(rest, "[abstract]") {
		cl.Assumed = true
		rest = strings.TrimSpace(rest[len("[abstract]"):])
	}
	if strings.HasPrefix(rest, "[internal]") {
		// checked against the body, not exported to callers (it talks about state callers do not see)
		cl.Internal = true
		rest = strings.TrimSpace(rest[len("[internal]"):])
	}
	for {
		rest = strings.TrimSpace(rest)
		if strings.HasSuffix(rest, "}") {
			if i := strings.LastIndex(rest, "{"); i >= 0 {
				cl.Label = strings.TrimSpace(rest[i+1 : len(rest)-1])
				rest = rest[:i]
				continue
			}
		}
		if strings.HasSuffix(rest, "]") {
			if i := strings.LastIndex(rest, "["); i >= 0 {
				inner := rest[i+1 : len(rest)-1]
				if isPropList(inner) {
					for _, p := range strings.Split(inner, ",") {
						cl.Props = append(cl.Props, strings.TrimSpace(p))
					}
					rest = rest[:i]
					continue
				}
			}
		}
		break
	}
	e, err := ParseExpr(rest)
	if err != nil {
		return nil, err
	}
	cl.E = e
	cl.Src = strings.TrimSpace(rest)
	return cl, nil
}

func isPropList(s string) bool {
	if s == "" {
		return false
	}
	for _, p := range strings.Split(s, ",") {
		p = strings.TrimSpace(p)
		if len(p) < 3 || p[0] != 'C' {
			return false
		}
		for _, c := range p[1:] {
			if c < '0' || c > '9' {
				return false
			}
		}
	}
	return true
}

func qualifyType(t string, sf *SpecFile) string {
	star := ""
	if strings.HasPrefix(t, "*") {
		star = "*"
		t = t[1:]
	}
	if i := strings.Index(t, "["); i >= 0 {
		t = t[:i]
	}
	if t == "error" {
		return star + t // the predeclared interface has no package
	}
	if i := strings.LastIndex(t, "."); i >= 0 {
		alias := t[:i]
		if p, ok := sf.Imports[alias]; ok {
			return star + p + "." + t[i+1:]
		}
		return star + t
	}
	return star + sf.Pkg + "." + t
}

// parseHeader: [ "(" [name] ["*"]Type ")" ] [pkg "."] Name ["$" n...] "(" names ")" [ "(" names ")" ] [props(...)]
func parseHeader(s string, sf *SpecFile) (*Contract, error) {
	c := &Contract{Pkg: sf.Pkg}
	s = strings.TrimSpace(s)
	if i := strings.Index(s, "props("); i >= 0 {
		j := strings.Index(s[i:], ")")
		for _, p := range strings.Split(s[i+6:i+j], ",") {
			c.Props = append(c.Props, strings.TrimSpace(p))
		}
		s = strings.TrimSpace(s[:i] + s[i+j+1:])
	}
	if strings.HasPrefix(s, "(") {
		j := strings.Index(s, ")")
		f := strings.Fields(s[1:j])
		switch len(f) {
		case 1:
			c.RecvType = f[0]
			c.RecvName = "recv"
		case 2:
			c.RecvName, c.RecvType = f[0], f[1]
		default:
			return nil, fmt.Errorf("bad receiver in %q", s)
		}
		s = strings.TrimSpace(s[j+1:])
	}
	i := strings.Index(s, "(")
	if i < 0 {
		return nil, fmt.Errorf("parameter list expected in %q", s)
	}
	name := strings.TrimSpace(s[:i])
	s = s[i:]
	pkg := sf.Pkg
	if k := strings.LastIndex(name, "."); k >= 0 {
		alias := name[:k]
		name = name[k+1:]
		if p, ok := sf.Imports[alias]; ok {
			pkg = p
		} else if d := strings.Index(alias, "."); d >= 0 {
			// interface contracts: alias.Type.Method
			if p, ok := sf.Imports[alias[:d]]; ok {
				pkg = p + alias[d:]
			} else {
				pkg = alias
			}
		} else {
			pkg = alias
		}
	}
	c.FuncName = name
	if c.RecvType != "" {
		q := qualifyType(c.RecvType, sf)
		star := ""
		if strings.HasPrefix(q, "*") {
			star = "*"
			q = q[1:]
		}
		// q = pkgpath.Type
		k := strings.LastIndex(q, ".")
		c.Pkg = q[:k]
		c.Key = q[:k] + ".(" + star + q[k+1:] + ")." + name
	} else {
		c.Pkg = pkg
		c.Key = pkg + "." + name
	}
	lists := []string{}
	for strings.HasPrefix(s, "(") {
		j := strings.Index(s, ")")
		if j < 0 {
			return nil, fmt.Errorf("unbalanced parens in header")
		}
		lists = append(lists, s[1:j])
		s = strings.TrimSpace(s[j+1:])
	}
	if len(lists) > 0 {
		c.Params = fieldsComma(lists[0])
	}
	if len(lists) > 1 {
		c.Results = fieldsComma(lists[1])
	}
	if s != "" {
		return nil, fmt.Errorf("trailing text %q in contract header", s)
	}
	return c, nil
}

func fieldsComma(s string) []string {
	var out []string
	for _, f := range strings.Split(s, ",") {
		f = strings.TrimSpace(f)
		if f != "" {
			out = append(out, f)
		}
	}
	return out
}

// spec func name(a Int, b Bytes) Int [= expr]
func parseSpecFunc(rest string) (*SpecFunc, error) {
	rest = strings.TrimSpace(strings.TrimPrefix(strings.TrimSpace(rest), "func"))
	i := strings.Index(rest, "(")
	j := strings.Index(rest, ")")
	if i < 0 || j < i {
		return nil, fmt.Errorf("spec func name(params) Sort")
	}
	f := &SpecFunc{Name: strings.TrimSpace(rest[:i])}
	for _, p := range fieldsComma(rest[i+1 : j]) {
		pf := strings.Fields(p)
		if len(pf) != 2 {
			return nil, fmt.Errorf("spec func param %q", p)
		}
		f.Params = append(f.Params, pf[0])
		f.PSorts = append(f.PSorts, pf[1])
	}
	tail := strings.TrimSpace(rest[j+1:])
	if k := strings.Index(tail, "="); k >= 0 {
		f.Ret = strings.TrimSpace(tail[:k])
		e, err := ParseExpr(tail[k+1:])
		if err != nil {
			return nil, err
		}
		f.Body = e
	} else {
		f.Ret = tail
	}
	if f.Ret == "" {
		return nil, fmt.Errorf("spec func %s: result sort missing", f.Name)
	}
	return f, nil
}

// CallSiteSpec: assertions that must hold immediately before every call in the function whose
// description (callee key, interface method, or `value:<local>` for a call through a local
// function value) contains Pattern.  A function with no matching call fails the `site-exists`
// obligation, so dropping the call is noticed as well.
// GuardSpec: `guarded (Type) field by lockfield` - every load or store of Type.field made by a
// function under verification must happen while Type.lockfield (a sync.Mutex) is held.
type GuardSpec struct {
	Type, Field, Lock string
	Except            []string // function key suffixes whose accesses are exempt (assumption)
}

type CallSiteSpec struct {
	Forbidden bool // `nocall`: no matching call may exist
	Pattern string
	Asserts []*Clause
}

// LetDef names a post-state expression (old() allowed).  It is evaluated once, bound to a fresh
// constant with a defining equation, and shared by every ensures clause: nested position
// expressions stay linear in size.
type LetDef struct {
	Name string
	E    *Expr
	Src  string
}

func sortByName(n string) (Sort, error) {
	switch n {
	case "Int":
		return SInt, nil
	case "Bool":
		return SBool, nil
	case "Bytes", "Ints":
		return SArrII, nil
	case "Bools":
		return SArrIB, nil
	}
	if strings.HasPrefix(n, "U_") {
		return Sort(n), nil
	}
	if strings.HasPrefix(n, "Arr_") {
		el, err := sortByName(n[4:])
		if err != nil {
			return "", err
		}
		return ArrSort(SInt, el), nil
	}
	return "", fmt.Errorf("unknown sort %q", n)
}
