package proto

// Replay recipe for C06 (proto.(*ColArr).DecodeColumn#post:offsets-consistent): drop into proto/ and run
//   go test -vet=off -count=1 -run TestVerifArrayOffsets ./proto/
// An Array(UInt8) column with offsets [5, 2] (decreasing) and two data rows decoded successfully
// before the fix and then panicked in Row(0).

import "testing"

func TestVerifArrayOffsets(t *testing.T) {
	var b Buffer
	b.PutUInt64(5)
	b.PutUInt64(2)
	b.PutUInt8(7)
	b.PutUInt8(8)
	c := new(ColUInt8).Array()
	err := c.DecodeColumn(b.Reader(), 2)
	if err != nil {
		return // rejected: fine
	}
	defer func() {
		if r := recover(); r != nil {
			t.Fatalf("decode succeeded but Row(0) panics: %v", r)
		}
	}()
	for i := 0; i < c.Rows(); i++ {
		_ = c.Row(i)
	}
}
