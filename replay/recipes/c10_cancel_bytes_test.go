package ch

// Replay recipe for C10 (ch.(*Client).cancelQuery#post:cancel-code): drop into the repository root and run
//   go test -vet=off -count=1 -run TestVerifCancelWritesExactlyTheCancelPacket .
// cancelQuery must put exactly the one-byte Cancel packet (03) on the wire and close the
// connection (before the fix it wrote 00 03).

import (
	"bytes"
	"net"
	"testing"
	"time"

	"go.uber.org/zap"
)

type verifRecConn struct {
	bytes.Buffer
	closed int
}

func (c *verifRecConn) Read(p []byte) (int, error)         { return 0, net.ErrClosed }
func (c *verifRecConn) Close() error                       { c.closed++; return nil }
func (c *verifRecConn) LocalAddr() net.Addr                { return &net.TCPAddr{} }
func (c *verifRecConn) RemoteAddr() net.Addr               { return &net.TCPAddr{} }
func (c *verifRecConn) SetDeadline(t time.Time) error      { return nil }
func (c *verifRecConn) SetReadDeadline(t time.Time) error  { return nil }
func (c *verifRecConn) SetWriteDeadline(t time.Time) error { return nil }

func TestVerifCancelWritesExactlyTheCancelPacket(t *testing.T) {
	conn := &verifRecConn{}
	c := &Client{conn: conn, lg: zap.NewNop()}
	_ = c.cancelQuery()
	if got := conn.Bytes(); !bytes.Equal(got, []byte{0x03}) {
		t.Fatalf("cancelQuery wrote % x, want 03", got)
	}
	if conn.closed != 1 || !c.IsClosed() {
		t.Fatalf("cancelQuery must close the client and its connection exactly once (closed=%d)", conn.closed)
	}
}
