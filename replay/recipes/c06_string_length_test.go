package proto

// Replay recipe for the C06 known findings on (*ColStr).DecodeColumn (#allocsize:1, #ovf:3): drop into proto/ and run
//   go test -vet=off -count=1 -run TestVerifStringLength ./proto/
// A String column whose first length varint is 2^62 makes DecodeColumn request 2^62 bytes:
// the process panics (makeslice: len out of range) instead of returning an error.  With a
// length such as 2^40 the runtime aborts with "out of memory" when the machine cannot satisfy it.

import "testing"

func TestVerifStringLength(t *testing.T) {
	var b Buffer
	b.PutUVarInt(1 << 62)
	var c ColStr
	defer func() {
		if r := recover(); r != nil {
			t.Fatalf("hostile string length crashes the decoder: %v", r)
		}
	}()
	if err := c.DecodeColumn(b.Reader(), 1); err == nil {
		t.Fatal("accepted")
	}
}
