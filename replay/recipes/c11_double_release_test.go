package chpool

// Replay recipe for C11 (chpool.(*Client).Release#post:handle-cleared): drop into chpool/ and run
//   go test -vet=off -count=1 -run TestVerifDoubleRelease ./chpool/
// On the code before the fix the stale handle's second Release gives away the resource
// that the second holder is still using, so a third Acquire succeeds with MaxSize 1.

import (
	"context"
	"testing"
	"time"

	"github.com/jackc/puddle/v2"

	"github.com/ClickHouse/ch-go"
)

func TestVerifDoubleRelease(t *testing.T) {
	ctx := context.Background()
	p := &Pool{options: Options{MaxConnLifetime: time.Hour}}
	pool, err := puddle.NewPool(&puddle.Config[*connResource]{
		Constructor: func(context.Context) (*connResource, error) {
			return &connResource{client: &ch.Client{}}, nil
		},
		Destructor: func(*connResource) {},
		MaxSize:    1,
	})
	if err != nil {
		t.Fatal(err)
	}
	p.pool = pool

	a, err := p.Acquire(ctx)
	if err != nil {
		t.Fatal(err)
	}
	a.Release()
	b, err := p.Acquire(ctx) // second holder, same pooled connection
	if err != nil {
		t.Fatal(err)
	}
	_ = b
	a.Release() // released twice: must not affect b

	ctx2, cancel := context.WithTimeout(ctx, 200*time.Millisecond)
	defer cancel()
	if c, err := p.Acquire(ctx2); err == nil {
		_ = c
		t.Fatalf("a third holder acquired the only connection while the second holder still has it")
	}
}
