package compress

// Replay recipe for C05 (compress.(*Reader).readBlock#post:err-leaves-empty): drop into compress/ and run
//   go test -vet=off -count=1 -run TestVerifNoStaleDataAfterFailedFrame ./compress/
// A valid frame followed by a frame with a bad checksum: after the failing Read, another Read
// must not hand out any bytes (before the fix it returned the previous frame's or zero-filled data).

import (
	"bytes"
	"testing"
)

func TestVerifNoStaleDataAfterFailedFrame(t *testing.T) {
	w := NewWriter(LevelZero, None)
	if err := w.Compress([]byte("first-frame-payload")); err != nil {
		t.Fatal(err)
	}
	stream := append([]byte(nil), w.Data...)
	if err := w.Compress([]byte("second-frame-payload!")); err != nil {
		t.Fatal(err)
	}
	bad := append([]byte(nil), w.Data...)
	bad[0] ^= 0xff // corrupt the checksum
	stream = append(stream, bad...)

	r := NewReader(bytes.NewReader(stream))
	buf := make([]byte, len("first-frame-payload"))
	if _, err := r.Read(buf); err != nil {
		t.Fatal(err)
	}
	if _, err := r.Read(buf); err == nil {
		t.Fatal("corrupted frame accepted")
	}
	n, err := r.Read(buf)
	if err == nil && n > 0 {
		t.Fatalf("Read after a failed frame handed out %d bytes: %q", n, buf[:n])
	}
}
