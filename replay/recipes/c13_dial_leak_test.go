package ch

// Replay recipe for C13 (ch.Dial#post:dialed-conn-closed-on-failure): drop into the root package and run
//   go test -vet=off -count=1 -run TestVerifDialClosesOnFailure .
// The fake server answers the client hello with garbage, so the handshake fails; the connection
// Dial opened must be closed.

import (
	"context"
	"net"
	"sync/atomic"
	"testing"
	"time"
)

type verifCountingConn struct {
	net.Conn
	closed *atomic.Int32
}

func (c verifCountingConn) Close() error { c.closed.Add(1); return c.Conn.Close() }

type verifDialer struct{ closed *atomic.Int32 }

func (d verifDialer) DialContext(ctx context.Context, network, address string) (net.Conn, error) {
	a, b := net.Pipe()
	go func() {
		buf := make([]byte, 4096)
		_, _ = b.Read(buf)               // client hello
		_, _ = b.Write([]byte{0x7f, 0x7f}) // not a server packet
		time.Sleep(50 * time.Millisecond)
	}()
	return verifCountingConn{Conn: a, closed: d.closed}, nil
}

func TestVerifDialClosesOnFailure(t *testing.T) {
	var closed atomic.Int32
	ctx, cancel := context.WithTimeout(context.Background(), 5*time.Second)
	defer cancel()
	_, err := Dial(ctx, Options{Dialer: verifDialer{closed: &closed}, HandshakeTimeout: time.Second})
	if err == nil {
		t.Fatal("handshake with garbage should fail")
	}
	if closed.Load() == 0 {
		t.Fatalf("Dial failed (%v) but left the connection it dialed open", err)
	}
}
