package proto

// Replay recipe for C06 (proto.(*ColLowCardinalityRaw).DecodeColumn#post:keys-column-has-the-block-row-count):
// drop into proto/ and run
//   go test -vet=off -count=1 -run TestVerifLowCardinalityRawRows ./proto/
// The keys column was decoded with the key count read from the stream instead of the block's row
// count, so a stream announcing 1 key in a block of 3 rows decoded successfully into a column that
// reports 1 row (every column of a decoded block must report the block's row count).

import "testing"

func TestVerifLowCardinalityRawRows(t *testing.T) {
	var b Buffer
	b.PutInt64(cardinalityUpdateAll | int64(KeyUInt8)) // meta
	b.PutInt64(1)                                       // dictionary rows
	b.PutString("a")                                    // dictionary
	b.PutInt64(1)                                       // key rows: 1, the block has 3
	b.PutUInt8(0)
	c := &ColLowCardinalityRaw{Index: new(ColStr), Key: KeyUInt8}
	const rows = 3
	if err := c.DecodeColumn(b.Reader(), rows); err != nil {
		return // rejected: fine
	}
	if got := c.Rows(); got != rows {
		t.Fatalf("decode of a %d-row block succeeded but the column reports %d rows", rows, got)
	}
}
