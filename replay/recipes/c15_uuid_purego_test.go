//go:build purego

package proto

// Replay recipe for C15 (proto.(ColUUID).EncodeColumn#post:append-only@verif,purego): drop into proto/ and run
//   go test -tags purego -vet=off -count=1 -run TestVerifUUIDEncodeKeepsEarlierBytes ./proto/
// The pure-Go encoder must append to the buffer without touching what is already there (before
// the fix it byte-swapped the whole buffer).

import (
	"bytes"
	"testing"

	"github.com/google/uuid"
)

func TestVerifUUIDEncodeKeepsEarlierBytes(t *testing.T) {
	prefix := []byte{1, 2, 3, 4, 5, 6, 7, 8, 9, 10, 11, 12, 13, 14, 15, 16}
	b := Buffer{Buf: append([]byte(nil), prefix...)}
	col := ColUUID{uuid.MustParse("00112233-4455-6677-8899-aabbccddeeff")}
	col.EncodeColumn(&b)
	if !bytes.Equal(b.Buf[:16], prefix) {
		t.Fatalf("bytes already in the buffer were changed: % x", b.Buf[:16])
	}
	var fresh Buffer
	col.EncodeColumn(&fresh)
	if !bytes.Equal(b.Buf[16:], fresh.Buf) {
		t.Fatalf("encoding depends on what the buffer held: % x vs % x", b.Buf[16:], fresh.Buf)
	}
}
