package ch

// verif:race
// Replay recipe for C12 (ch.(*Client).metricsInc#guard:*): drop into the repository root and run
//   go test -race -vet=off -count=1 -run TestVerifMetricsSharedBetweenSenderAndReceiver .
// With OpenTelemetry instrumentation on, Do puts one *queryMetrics into the query's context; the
// sender goroutine reports through it from encodeBlock (BlocksSent) and the receiver goroutine from
// decodeBlock and handlePacket (rows, bytes, blocks received).  metricsInc adds to EVERY field on
// every call, so the two goroutines write the same words.  The test does what the two goroutines
// of a streamed INSERT do while the server sends progress: before the fix the race detector
// reports the unsynchronised writes (and updates are lost).

import (
	"context"
	"sync"
	"testing"
)

func TestVerifMetricsSharedBetweenSenderAndReceiver(t *testing.T) {
	c := &Client{otel: true}
	m := new(sharedQueryMetrics)
	ctx := context.WithValue(context.Background(), ctxQueryKey{}, m)
	const n = 20000
	var wg sync.WaitGroup
	wg.Add(2)
	go func() { // sender: one block per round
		defer wg.Done()
		for i := 0; i < n; i++ {
			c.metricsInc(ctx, queryMetrics{BlocksSent: 1})
		}
	}()
	go func() { // receiver: progress packets
		defer wg.Done()
		for i := 0; i < n; i++ {
			c.metricsInc(ctx, queryMetrics{Rows: 1, Bytes: 8})
		}
	}()
	wg.Wait()
	if m.BlocksSent != n || m.Rows != n || m.Bytes != 8*n {
		t.Fatalf("lost updates: BlocksSent=%d Rows=%d Bytes=%d, want %d %d %d", m.BlocksSent, m.Rows, m.Bytes, n, n, 8*n)
	}
}
