package proto

// Replay recipe for C16 (proto.(*ColLowCardinality).Prepare#inv-init:L0 / #post:keys-denote-values):
// drop into proto/ and run
//   go test -vet=off -count=1 -run TestVerifLowCardinalityPrepareTwice ./proto/
// Prepare restarted its key counter at zero while keeping the value->key map and the dictionary
// column of an earlier Prepare (or the dictionary of an earlier DecodeColumn), so a value first
// seen by a later Prepare was written with the key of another value.

import (
	"testing"
)

func lcRoundTrip(t *testing.T, c *ColLowCardinality[string]) []string {
	t.Helper()
	var b Buffer
	c.EncodeColumn(&b)
	d := new(ColStr).LowCardinality()
	if err := d.DecodeColumn(b.Reader(), c.Rows()); err != nil {
		t.Fatal(err)
	}
	return append([]string(nil), d.Values...)
}

func TestVerifLowCardinalityPrepareTwice(t *testing.T) {
	// history 1: Append, Prepare, Append, Prepare
	c := new(ColStr).LowCardinality()
	c.Append("a")
	if err := c.Prepare(); err != nil {
		t.Fatal(err)
	}
	c.Append("b")
	if err := c.Prepare(); err != nil {
		t.Fatal(err)
	}
	if got := lcRoundTrip(t, c); len(got) != 2 || got[0] != "a" || got[1] != "b" {
		t.Fatalf("Append a; Prepare; Append b; Prepare: wire carries %q, want [a b]", got)
	}

	// history 2: Prepare once (map allocated), Reset, DecodeColumn of [b a] (dictionary b,a), Prepare
	e := new(ColStr).LowCardinality()
	e.Append("x")
	_ = e.Prepare()
	src := new(ColStr).LowCardinality()
	src.Append("b")
	src.Append("a")
	_ = src.Prepare()
	var b Buffer
	src.EncodeColumn(&b)
	e.Reset()
	if err := e.DecodeColumn(b.Reader(), 2); err != nil {
		t.Fatal(err)
	}
	e.Values[0], e.Values[1] = e.Values[1], e.Values[0] // now [a b]
	if err := e.Prepare(); err != nil {
		t.Fatal(err)
	}
	if got := lcRoundTrip(t, e); len(got) != 2 || got[0] != "a" || got[1] != "b" {
		t.Fatalf("Reset; DecodeColumn; Prepare: wire carries %q, want [a b]", got)
	}
}
