package ch

// Replay recipe for C04 (ch.(*Client).Do$5#site:a-failed-receiver-signals-done-only-after-the-context-is-dead):
// drop into the repository root and run
//   go test -vet=off -count=1 -run TestVerifReceiverFailureClosesClient .
// The server answers a query with a packet the client does not expect in the middle of a query
// (a Pong).  The receiving goroutine of Do fails with a non-exception error; its deferred
// close(done) wakes the cancel-watch goroutine BEFORE the errgroup wrapper has cancelled the
// query context, so the cancel-watch can find ctx.Err() == nil, skip cancelQuery and leave the
// client open in the middle of the response stream although Do returned an error.  The window is
// a few hundred nanoseconds wide: the scenario is repeated until it is hit (before the fix: a
// handful of hits in 20000 rounds on 16 cores; after the fix: never, the cancel-watch also acts
// on the receiver's own failure).

import (
	"context"
	"net"
	"sync"
	"testing"
	"time"

	"github.com/ClickHouse/ch-go/proto"
)

type verifScriptConn struct {
	mu     sync.Mutex
	cond   *sync.Cond
	in     []byte
	closed bool
}

func newVerifScriptConn(in []byte) *verifScriptConn {
	c := &verifScriptConn{in: in}
	c.cond = sync.NewCond(&c.mu)
	return c
}

type verifAddr struct{}

func (verifAddr) Network() string { return "verif" }
func (verifAddr) String() string  { return "verif:0" }

func (c *verifScriptConn) Read(p []byte) (int, error) {
	c.mu.Lock()
	defer c.mu.Unlock()
	for {
		if c.closed {
			return 0, &net.OpError{Op: "read", Net: "verif", Err: net.ErrClosed}
		}
		if len(c.in) > 0 {
			n := copy(p, c.in)
			c.in = c.in[n:]
			return n, nil
		}
		c.cond.Wait()
	}
}
func (c *verifScriptConn) Write(p []byte) (int, error) {
	c.mu.Lock()
	defer c.mu.Unlock()
	if c.closed {
		return 0, &net.OpError{Op: "write", Net: "verif", Err: net.ErrClosed}
	}
	return len(p), nil
}
func (c *verifScriptConn) Close() error {
	c.mu.Lock()
	c.closed = true
	c.mu.Unlock()
	c.cond.Broadcast()
	return nil
}
func (c *verifScriptConn) LocalAddr() net.Addr                { return verifAddr{} }
func (c *verifScriptConn) RemoteAddr() net.Addr               { return verifAddr{} }
func (c *verifScriptConn) SetDeadline(t time.Time) error      { return nil }
func (c *verifScriptConn) SetReadDeadline(t time.Time) error  { return nil }
func (c *verifScriptConn) SetWriteDeadline(t time.Time) error { return nil }

func TestVerifReceiverFailureClosesClient(t *testing.T) {
	var hello proto.Buffer
	h := proto.ServerHello{Name: "verif", Major: 23, Minor: 1, Revision: proto.Version, Timezone: "UTC", DisplayName: "verif"}
	h.EncodeAware(&hello, proto.Version)
	script := append(append([]byte(nil), hello.Buf...), byte(proto.ServerCodePong))

	const rounds = 20000
	open := 0
	for i := 0; i < rounds; i++ {
		conn := newVerifScriptConn(append([]byte(nil), script...))
		ctx := context.Background()
		client, err := Connect(ctx, conn, Options{})
		if err != nil {
			t.Fatalf("connect: %v", err)
		}
		var res proto.ColUInt8
		err = client.Do(ctx, Query{Body: "SELECT 1", Result: proto.Results{{Name: "1", Data: &res}}})
		if err == nil || IsException(err) {
			t.Fatalf("round %d: expected a non-exception failure, got %v", i, err)
		}
		if !client.IsClosed() {
			open++
		}
		_ = conn.Close()
	}
	if open > 0 {
		t.Fatalf("C04: in %d of %d rounds the query failed with a non-exception error in the middle of the response and the client was left open", open, rounds)
	}
}
