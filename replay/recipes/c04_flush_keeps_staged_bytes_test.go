package ch

// Replay recipe for C04 (ch.(*Client).flush#post:staged-output-never-survives-a-flush): drop into
// the repository root and run
//   go test -vet=off -count=1 -run TestVerifFailedFlushDropsStagedBytes .
// A request is staged in the client's writer; the flush fails because the query's context is
// already dead (what happens to the sender of an INSERT when a server exception ends the query
// first).  After a server exception the client stays open, so the next request must start at a
// packet boundary: nothing of the failed request may reach the wire with it.  Before the fix the
// early return of flush left the staged bytes in the writer and the next flush sent them first.

import (
	"bytes"
	"context"
	"net"
	"testing"
	"time"

	"go.uber.org/zap"

	"github.com/ClickHouse/ch-go/proto"
)

type verifRecConn struct{ written []byte }

func (c *verifRecConn) Read(p []byte) (int, error)         { return 0, net.ErrClosed }
func (c *verifRecConn) Write(p []byte) (int, error)        { c.written = append(c.written, p...); return len(p), nil }
func (c *verifRecConn) Close() error                       { return nil }
func (c *verifRecConn) LocalAddr() net.Addr                { return verifRecAddr{} }
func (c *verifRecConn) RemoteAddr() net.Addr               { return verifRecAddr{} }
func (c *verifRecConn) SetDeadline(t time.Time) error      { return nil }
func (c *verifRecConn) SetReadDeadline(t time.Time) error  { return nil }
func (c *verifRecConn) SetWriteDeadline(t time.Time) error { return nil }

type verifRecAddr struct{}

func (verifRecAddr) Network() string { return "verif" }
func (verifRecAddr) String() string  { return "verif:0" }

func TestVerifFailedFlushDropsStagedBytes(t *testing.T) {
	conn := &verifRecConn{}
	c := &Client{conn: conn, lg: zap.NewNop(), writer: proto.NewWriter(conn, new(proto.Buffer))}

	// a block of the failed query, staged but not yet flushed
	c.writer.ChainBuffer(func(b *proto.Buffer) { b.PutString("stale block of the failed query") })
	dead, cancel := context.WithCancel(context.Background())
	cancel()
	if err := c.flush(dead); err == nil {
		t.Fatal("flush on a dead context must fail")
	}

	// the client is still open (the query ended with a server exception): the next request
	c.writer.ChainBuffer(func(b *proto.Buffer) { b.PutByte(byte(proto.ClientCodePing)) })
	if err := c.flush(context.Background()); err != nil {
		t.Fatal(err)
	}
	if want := []byte{byte(proto.ClientCodePing)}; !bytes.Equal(conn.written, want) {
		t.Fatalf("C04: the next request carried %d stale bytes of the failed one: % x, want % x", len(conn.written)-1, conn.written, want)
	}
}
