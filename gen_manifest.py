#!/usr/bin/env python3
"""Regenerates MANIFEST.json from props/*.json + manifest_meta.json (claimed checks) and not_applicable reasons."""
import json, os, subprocess
here = os.path.dirname(os.path.abspath(__file__))
meta = json.load(open(os.path.join(here, 'manifest_meta.json')))
props = [json.loads(l)['id'] for l in open(os.path.join(here, 'properties.jsonl'))]
checks = []
na = []
for pid in props:
    m = meta['claimed'].get(pid)
    if m and os.path.exists(os.path.join(here, 'props', pid + '.json')):
        checks.append({
            "property_id": pid,
            "quick_cmd": f"./check {pid} --tier quick",
            "thorough_cmd": f"./check {pid} --tier thorough",
            "evidence_file": f"/verif/evidence/{pid}.json",
            "replay_cmd_template": "cat {path}",
            "engine": "govc",
            "level_claimed": {"category": "proof", "text": m['text'], "design_ref": m.get('design_ref', 'DESIGN.md section 4/' + pid)},
            "level_note": m['note'],
            "technique": m.get('technique', "contract-based deductive verification: VCs generated from go/ssa of the real functions under //@ contracts, discharged by z3/cvc5"),
        })
    else:
        na.append({"property_id": pid, "reason": meta['not_applicable'].get(pid, "not yet decided by a discharged contract; see DESIGN.md")})
hooks_commits = subprocess.run(['git', '-C', '/repo', 'log', '--format=%h', '--grep=^verif:'], capture_output=True, text=True).stdout.split()
man = {
    "version": 1,
    "setup_cmd": "cd /verif/govc && GOFLAGS=-mod=vendor GOPROXY=off GOSUMDB=off GOTOOLCHAIN=local go build -o ../bin/govc ./cmd/govc",
    "hooks": {
        "guard": "verif",
        "enable": "go build tag `verif` (default codec variant) or `verif,purego` (pure-Go variant); the guarded files are comment-only contracts_verif.go (and lemma harness files *_lemmas_verif.go) in proto/, compress/, the root package and chpool/",
        "baseline_off_cmd": "cd /repo && export GOFLAGS=-mod=mod GOPROXY=off GOSUMDB=off GOTOOLCHAIN=local && go test -vet=off -count=1 ./... && (cd internal/cmd/ch-dl && go test -vet=off -count=1 ./...)",
        "source_commits": hooks_commits,
        "add_only": True,
    },
    "engines": [{"name": "govc", "path": "/verif/govc", "serves_properties": [c['property_id'] for c in checks],
                 "kind_free_text": "contract verifier for Go written for this task: symbolic execution of go/ssa with contracts at calls and invariants at loop heads; SMT-LIB obligations raced on z3 4.8.12, z3 5.1.0, cvc5 1.0"}],
    "checks": checks,
    "not_applicable": na,
    "notes": meta.get('notes', ''),
}
json.dump(man, open(os.path.join(here, 'MANIFEST.json'), 'w'), indent=1)
print(len(checks), 'claimed;', len(na), 'not applicable')
